#!/bin/sh
# usage: tools/eval_seeded3.sh <file-key> <variant>  (round 3: properties to check are read from property.txt)
K="$1"; V="$2"
WT="/tmp/${WTP:-w3}_$K"; S="$WT/_seeded/$V"
VERIF="$(cd "$(dirname "$0")/.." && pwd)"
NAME="seed${RND:-3}_${K}_$V"
PROPS=$(tr -c 'C0-9 \n' ' ' < "$S/property.txt" | tr ' ' '\n' | grep -E '^C[0-9]{2}$' | head -4 | tr '\n' ' ')
git -C "$WT" checkout -q -- .
D0=$(cd "$WT" && PYTHONPATH="$WT" timeout 600 /venv/bin/python "$S/demo.py" >/dev/null 2>&1; echo $?)
if ! git -C "$WT" apply "$S/patch.diff"; then echo "$NAME: PATCH DOES NOT APPLY"; exit 3; fi
T=$(cd "$WT" && /venv/bin/python -m pytest -q -p no:cacheprovider --timeout=900 2>&1 | tail -1)
D1=$(cd "$WT" && PYTHONPATH="$WT" timeout 600 /venv/bin/python "$S/demo.py" >/dev/null 2>&1; echo $?)
echo "$NAME: props='$PROPS' tests='$T' demo_clean=$D0 demo_patched=$D1"
OUT="$VERIF/out/mut/$NAME"; mkdir -p "$OUT"
for P in $PROPS; do
  VERIF_REPO="$WT" VERIF_OUTDIR="$OUT" VERIF_EVIDENCE_DIR="$OUT/evidence" "$VERIF/check" "$P" --tier quick > "$OUT/$P.txt" 2>&1
  RC=$?
  echo "$NAME: $P exit=$RC $(grep -m2 'unlisted violation' "$OUT/$P.txt" | cut -c1-170 | tr '\n' '|')"
done
git -C "$WT" checkout -q -- .
