#!/bin/sh
# usage: tools/eval_seeded.sh <Cxx> <variant> [props...]   (default props: Cxx)
# Confirms an agent-produced seeded change in its own scratch worktree /tmp/wt_<Cxx>:
# patch applies, repository tests pass with it, demo exits 1 with it and 0 without it; then runs
# the given quick checks against the patched worktree.  Leaves the worktree clean.
ID="$1"; V="$2"; shift 2
PROPS="${*:-$ID}"
WT="/tmp/${WTPREFIX:-wt}_$ID"; S="$WT/_seeded/$V"
VERIF="$(cd "$(dirname "$0")/.." && pwd)"
NAME="seed${ROUND:-}_${ID}_$V"
git -C "$WT" checkout -q -- . 
D0=$(cd "$WT" && PYTHONPATH="$WT" timeout 600 /venv/bin/python "$S/demo.py" >/dev/null 2>&1; echo $?)
if ! git -C "$WT" apply "$S/patch.diff"; then echo "$NAME: PATCH DOES NOT APPLY"; exit 3; fi
T=$(cd "$WT" && /venv/bin/python -m pytest -q -p no:cacheprovider --timeout=900 2>&1 | tail -1)
D1=$(cd "$WT" && PYTHONPATH="$WT" timeout 600 /venv/bin/python "$S/demo.py" >/dev/null 2>&1; echo $?)
echo "$NAME: tests='$T' demo_clean=$D0 demo_patched=$D1"
OUT="$VERIF/out/mut/$NAME"; mkdir -p "$OUT"
for P in $PROPS; do
  VERIF_REPO="$WT" VERIF_OUTDIR="$OUT" VERIF_EVIDENCE_DIR="$OUT/evidence" "$VERIF/check" "$P" --tier "${TIER:-quick}" > "$OUT/$P.txt" 2>&1
  RC=$?
  echo "$NAME: $P exit=$RC $(grep -m3 'unlisted violation' "$OUT/$P.txt" | cut -c1-170 | tr '\n' '|')"
done
git -C "$WT" checkout -q -- .
