import json,sys,os,copy
sys.path.insert(0,'/verif')
from vf.common import load; ns=load()
from vf import build as B, instr as I
d=json.load(open(sys.argv[1])); spec=d['case']['spec']; L=d['case']['absence']
I.install(); I.set_order(I.default_order(spec))
def states(p):
    for t in p.workflow.task_list:
        print(t.ID, ''.join({0:'.',1:'r',2:'W',-1:'F'}[int(s)] for s in t.state_record_list[:40]), [round(x,2) for x in t.remaining_work_amount_record_list[:14]])
m=B.build(spec); B.run(m.project,spec); print("base",m.project.time,m.project.status); states(m.project)
s2=copy.deepcopy(spec); s2['sim']['absence']=L; s2['sim']['max_time']+=len(L)+5
m2=B.build(s2); B.run(m2.project,s2); print("abs",m2.project.time,m2.project.status); states(m2.project)
