#!/bin/sh
# usage: tools/matrix.sh [N]   - every seeded change x every quick check (reduced to N cases), result in out/matrix.tsv
cd "$(dirname "$0")/.." || exit 2
N="${1:-400}"
mkdir -p out
: > out/matrix.tsv
for d in seeded/*/; do
  name=$(basename "$d")
  WT="/tmp/vfmx_${name}_$$"
  git -C /repo worktree add -q "$WT" HEAD || continue
  if git -C "$WT" apply "$(pwd)/${d}patch.diff"; then
    row="$name"
    for P in C01 C02 C03 C04 C05 C06 C07 C08 C09 C10 C11 C12 C13 C14 C15 C16 C17 C18 C19 C20; do
      VERIF_REPO="$WT" VERIF_OUTDIR="out/mx/$name" VERIF_EVIDENCE_DIR="out/mx/$name/ev" ./check $P --n "$N" > "out/mx_last.txt" 2>&1
      rc=$?
      [ $rc -eq 1 ] && row="$row	$P"
    done
    echo "$row" >> out/matrix.tsv
    echo "$row"
  else
    echo "$name	PATCH-DOES-NOT-APPLY" >> out/matrix.tsv
  fi
  git -C /repo worktree remove --force "$WT" >/dev/null 2>&1
  rm -rf "out/mx/$name"
done
