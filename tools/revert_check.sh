#!/bin/sh
# For every "fixed:" entry of known_findings.json: revert that fix commit in a scratch worktree and run the
# quick check of the property it is filed under - the violation must be reported again.
cd "$(dirname "$0")/.." || exit 2
python3 - <<'PY' > out/revert_plan.txt
import json,re
for line in json.load(open('known_findings.json'))['fixed']:
    m=re.match(r"fixed: property=(C\d\d) ([0-9a-f]{7,}) (.*)", line)
    if m: print(m.group(1), m.group(2), m.group(3)[:70].replace(' ','_'))
PY
while read -r P SHA WHAT; do
  WT="/tmp/vfrev_${SHA}_$$"
  git -C /repo worktree add -q "$WT" HEAD || continue
  if git -C "$WT" revert --no-commit "$SHA" >/dev/null 2>&1; then
    OUT="out/mut/revert_$SHA"; mkdir -p "$OUT"
    VERIF_REPO="$WT" VERIF_OUTDIR="$OUT" VERIF_EVIDENCE_DIR="$OUT/ev" ./check "$P" --tier quick > "$OUT/$P.txt" 2>&1
    echo "revert $SHA ($P) exit=$? $(grep -m1 'unlisted violation' "$OUT/$P.txt" | cut -c1-120)"
  else
    echo "revert $SHA ($P) CONFLICT (later fixes touch the same lines) - skipped"
  fi
  git -C /repo worktree remove --force "$WT" >/dev/null 2>&1
done < out/revert_plan.txt
