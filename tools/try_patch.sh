#!/bin/sh
# usage: tools/try_patch.sh <patch.diff> <name> <prop> [prop...]
# Applies the patch to a scratch worktree of /repo (outside /repo and /verif), checks that the
# repository's tests still pass, runs the given quick checks against it, removes the worktree.
PATCH="$(realpath "$1")"; NAME="$2"; shift 2
VERIF="$(cd "$(dirname "$0")/.." && pwd)"
WT="/tmp/vfmut_${NAME}_$$"
git -C /repo worktree add -q "$WT" HEAD || exit 2
trap 'git -C /repo worktree remove --force "$WT" >/dev/null 2>&1' EXIT
if ! git -C "$WT" apply "$PATCH"; then echo "PATCH-DOES-NOT-APPLY $NAME"; exit 3; fi
if [ -z "$SKIP_TESTS" ]; then
  T=$(cd "$WT" && /venv/bin/python -m pytest -q -p no:cacheprovider --timeout=900 -x 2>&1 | tail -1)
  echo "tests[$NAME]: $T"
fi
OUT="$VERIF/out/mut/$NAME"; mkdir -p "$OUT"
for P in "$@"; do
  VERIF_REPO="$WT" VERIF_OUTDIR="$OUT" VERIF_EVIDENCE_DIR="$OUT/evidence" "$VERIF/check" "$P" --tier "${TIER:-quick}" > "$OUT/$P.txt" 2>&1
  RC=$?
  echo "result[$NAME] $P exit=$RC $(grep -m2 'unlisted violation' "$OUT/$P.txt" | cut -c1-160 | tr '\n' '|')"
done
