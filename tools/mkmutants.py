#!/usr/bin/env python3
"""(Re)generate /verif/mutants/*.patch against the current /repo HEAD.

Each mutant is a realistic small break.  tools/selftest.sh applies each to a scratch worktree
(outside /repo and /verif), runs the repository's tests and the expected quick check(s)."""
import json
import os
import subprocess
import sys

HERE = os.path.dirname(os.path.dirname(os.path.abspath(__file__)))
M = "pDESy/model/"

# (name, [properties expected to catch it], file, old, new, occurrence (0-based) or None for unique)
MUTANTS = [
    ("m01_ff_gate_accepts_working", ["C01"], M + "base_workflow.py",
     "                    elif dependency == BaseTaskDependency.FF:\n                        if input_task.state == BaseTaskState.FINISHED:",
     "                    elif dependency == BaseTaskDependency.FF:\n                        if input_task.state != BaseTaskState.NONE:", None),
    ("m02_ss_gate_accepts_ready", ["C01"], M + "base_workflow.py",
     "                    if (\n                        input_task.state == BaseTaskState.WORKING\n                        or input_task.state == BaseTaskState.FINISHED\n                    ):\n                        ready = True",
     "                    if (\n                        input_task.state == BaseTaskState.WORKING\n                        or input_task.state == BaseTaskState.FINISHED\n                        or input_task.state == BaseTaskState.READY\n                    ):\n                        ready = True", None),
    ("m03_fs_gate_last_pred_wins", ["C01"], M + "base_workflow.py",
     "                    if input_task.state == BaseTaskState.FINISHED:\n                        ready = True\n                    else:\n                        ready = False\n                        break\n                elif dependency == BaseTaskDependency.SS:",
     "                    if input_task.state == BaseTaskState.FINISHED:\n                        ready = True\n                    else:\n                        ready = False\n                elif dependency == BaseTaskDependency.SS:", None),
    ("m04_absent_worker_contributes", ["C02", "C10"], M + "base_worker.py",
     "        if self.state == BaseWorkerState.ABSENCE:\n            return 0.0\n", "", None),
    ("m05_facility_skill_ignored", ["C02"], M + "base_task.py",
     "                        work_amount_progress += w_progress * f_progress",
     "                        work_amount_progress += w_progress * min(f_progress, 1.0)", None),
    ("m06_finish_early", ["C02"], M + "base_workflow.py",
     "                and task.remaining_work_amount < 0.0 + error_tol,",
     "                and task.remaining_work_amount < 0.25 + error_tol,", None),
    ("m07_facility_not_released", ["C03"], M + "base_workflow.py",
     "                                facility.state = BaseFacilityState.FREE\n                                facility.assigned_task_list.remove(task)",
     "                                facility.state = BaseFacilityState.FREE", None),
    ("m08_no_free_list_removal", ["C03"], M + "base_project.py",
     "                            worker.assigned_task_list.append(task)\n                            free_worker_list = [\n                                w for w in free_worker_list if w.ID != worker.ID\n                            ]",
     "                            worker.assigned_task_list.append(task)", None),
    ("m09_team_check_dropped", ["C04"], M + "base_project.py",
     "                            lambda worker: worker.has_workamount_skill(task.name)\n                            and self.__is_allocated_worker(worker, task),",
     "                            lambda worker: worker.has_workamount_skill(task.name),", None),
    ("m10_fixed_list_only_when_ready", ["C04"], M + "base_task.py",
     "            if self.fixing_allocating_worker_id_list is not None:\n                if worker.ID not in self.fixing_allocating_worker_id_list:",
     "            if self.fixing_allocating_worker_id_list is not None and self.state == BaseTaskState.READY:\n                if worker.ID not in self.fixing_allocating_worker_id_list:", None),
    ("m11_solo_facility_check_dropped", ["C04"], M + "base_task.py",
     "        if facility is not None:\n            if facility.solo_working:\n                if len(self.allocated_facility_list) > 0:\n                    return False\n", "", None),
    ("m12_one_step_beyond_max_time", ["C05"], M + "base_project.py",
     "            if self.time >= max_time:", "            if self.time > max_time:", None),
    ("m13_one_worker_per_task_per_step", ["C06"], M + "base_project.py",
     "                            free_worker_list = [\n                                w for w in free_worker_list if w.ID != worker.ID\n                            ]\n\n    def remove_absence_time_list",
     "                            free_worker_list = [\n                                w for w in free_worker_list if w.ID != worker.ID\n                            ]\n                            break\n\n    def remove_absence_time_list", None),
    ("m14_absent_facility_charged", ["C07", "C10"], M + "base_workplace.py",
     "                    if facility.state == BaseFacilityState.WORKING:\n                        facility.cost_list.append(facility.cost_per_time)",
     "                    if facility.state != BaseFacilityState.FREE:\n                        facility.cost_list.append(facility.cost_per_time)", None),
    ("m15_project_cost_rounded", ["C07"], M + "base_organization.py",
     "        self.cost_list.append(cost_this_time)\n        return cost_this_time\n\n    def record(self, working=True):",
     "        self.cost_list.append(cost_this_time)\n        return round(cost_this_time)\n\n    def record(self, working=True):", None),
    ("m16_workplace_content_not_recorded_at_absence", ["C08"], M + "base_organization.py",
     "            workplace.record_placed_component_id()\n",
     "            if working:\n                workplace.record_placed_component_id()\n", None),
    ("m17_finish_check_single_pass_over_set", ["C09"], M + "base_workflow.py",
     "        while newly_finished:\n            newly_finished = False\n            for task in working_and_zero_task_list:",
     "        for _ in range(1):\n            for task in set(working_and_zero_task_list):", None),
    ("m18_allocate_during_absence", ["C10"], M + "base_project.py",
     "            if working:\n                self.__allocate(", "            if True:\n                self.__allocate(", None),
    ("m19_absent_worker_charged", ["C10", "C07"], M + "base_team.py",
     "                    if worker.state == BaseWorkerState.WORKING:\n                        worker.cost_list.append(worker.cost_per_time)",
     "                    if len(worker.assigned_task_list) > 0:\n                        worker.cost_list.append(worker.cost_per_time)", None),
    ("m20_facility_hsv_ascending", ["C11"], M + "base_priority_rule.py",
     "            key=lambda facility: facility.workamount_skill_mean_map.get(\n                kwargs[\"name\"], -float(\"inf\")\n            ),\n            reverse=True,",
     "            key=lambda facility: facility.workamount_skill_mean_map.get(\n                kwargs[\"name\"], -float(\"inf\")\n            ),", None),
    ("m21_task_order_discarded", ["C11"], M + "base_project.py",
     "        ready_and_working_task_list = sort_task_list(\n            ready_and_working_task_list, task_priority_rule\n        )",
     "        sort_task_list(ready_and_working_task_list, task_priority_rule)", None),
    ("m22_tail_lft_is_own_eft", ["C12"], M + "base_workflow.py",
     "            task.lft = self.critical_path_length\n", "            task.lft = task.eft\n", None),
    ("m23_finished_component_never_leaves", ["C13"], M + "base_product.py",
     "            if all_finished_flag and c.placed_workplace is not None:",
     "            if all_finished_flag and c.placed_workplace is not None and c.child_component_list:", None),
    ("m24_component_finished_when_any_task_is", ["C14"], M + "base_component.py",
     "    def __check_finished(self):\n        if all(", "    def __check_finished(self):\n        if self.targeted_task_list and any(", None),
    ("m25_worker_assignment_reset_on_resume", ["C15"], M + "base_worker.py",
     "        if state_info:\n            self.state = BaseWorkerState.FREE\n            self.assigned_task_list = []\n",
     "        if state_info:\n            self.state = BaseWorkerState.FREE\n        self.assigned_task_list = []\n", None),
    ("m26_facility_absence_not_read", ["C16"], M + "base_organization.py",
     "                    workamount_skill_sd_map=w[\"workamount_skill_sd_map\"],\n                    absence_time_list=w[\"absence_time_list\"],\n                    state=BaseFacilityState(w[\"state\"]),",
     "                    workamount_skill_sd_map=w[\"workamount_skill_sd_map\"],\n                    state=BaseFacilityState(w[\"state\"]),", None),
    ("m27_workplace_links_not_restored", ["C17"], M + "base_project.py",
     "            self.workflow.reverse_dependencies()\n            self.organization.reverse_dependencies()\n\n    def reverse_log_information",
     "            self.workflow.reverse_dependencies()\n\n    def reverse_log_information", None),
    ("m28_component_place_log_not_removed", ["C18"], M + "base_component.py",
     "            if step_time < len(self.state_record_list):\n                self.placed_workplace_id_record.pop(step_time)\n                self.state_record_list.pop(step_time)",
     "            if step_time < len(self.state_record_list):\n                self.state_record_list.pop(step_time)", None),
    ("m29_worker_gantt_absence_before_working_lost", ["C19"], M + "base_worker.py",
     "                        if previous_state == BaseWorkerState.FREE:\n                            ready_time_list.append(\n                                (from_time, (to_time - 1) - from_time + finish_margin)\n                            )\n                        elif previous_state == BaseWorkerState.ABSENCE:\n                            absence_time_list.append(\n                                (from_time, (to_time - 1) - from_time + finish_margin)\n                            )\n                    if state == BaseWorkerState.ABSENCE:",
     "                        if previous_state == BaseWorkerState.FREE:\n                            ready_time_list.append(\n                                (from_time, (to_time - 1) - from_time + finish_margin)\n                            )\n                    if state == BaseWorkerState.ABSENCE:", None),
    ("m30_subproject_duration_ignores_remove_flag", ["C20"], M + "base_subproject_task.py",
     "        # remove absence_time_list info\n        if remove_absence_time_list:\n            project.remove_absence_time_list()\n",
     "        duration = project.time\n        # remove absence_time_list info\n        if remove_absence_time_list:\n            project.remove_absence_time_list()\n        project.time = duration\n", None),
    ("m31_team_cost_reset_on_resume", ["C15", "C08"], M + "base_team.py",
     "        if log_info:\n            self.cost_list = []\n        for w in self.worker_list:",
     "        self.cost_list = []\n        for w in self.worker_list:", None),
    ("m33_ready_check_before_finish_check", ["C06"], M + "base_project.py",
     "        self.workflow.check_state(self.time, BaseTaskState.FINISHED)\n        self.product.check_state()  # product should be checked after checking workflow state\n        self.product.check_removing_placed_workplace()\n        self.workflow.check_state(self.time, BaseTaskState.READY)\n",
     "        self.workflow.check_state(self.time, BaseTaskState.READY)\n        self.workflow.check_state(self.time, BaseTaskState.FINISHED)\n        self.product.check_state()  # product should be checked after checking workflow state\n        self.product.check_removing_placed_workplace()\n", None),
    ("m32_success_reported_with_unfinished_auto", ["C05"], M + "base_project.py",
     "            state_list = list(map(lambda task: task.state, self.workflow.task_list))",
     "            state_list = list(\n                map(\n                    lambda task: task.state,\n                    filter(lambda t: not (t.auto_task and t.default_work_amount == 0), self.workflow.task_list),\n                )\n            )", None),
]


def main():
    out = os.path.join(HERE, "mutants")
    os.makedirs(out, exist_ok=True)
    wt = "/tmp/vfmk_%d" % os.getpid()
    subprocess.check_call(["git", "-C", "/repo", "worktree", "add", "-q", wt, "HEAD"])
    meta = []
    try:
        for name, props, f, old, new, occ in MUTANTS:
            path = os.path.join(wt, f)
            s = open(path).read()
            n = s.count(old)
            if n == 0 or (occ is None and n != 1):
                print("SKIP %s: pattern occurs %d times" % (name, n))
                continue
            if occ is None:
                s2 = s.replace(old, new, 1)
            else:
                parts = s.split(old)
                s2 = old.join(parts[:occ + 1]) + new + old.join(parts[occ + 1:])
            open(path, "w").write(s2)
            diff = subprocess.check_output(["git", "-C", wt, "diff"]).decode()
            open(os.path.join(out, name + ".patch"), "w").write(diff)
            subprocess.check_call(["git", "-C", wt, "checkout", "-q", "--", "."])
            meta.append(dict(name=name, expected=props, file=f))
            print("ok   %s" % name)
    finally:
        subprocess.call(["git", "-C", "/repo", "worktree", "remove", "--force", wt])
    json.dump(meta, open(os.path.join(out, "mutants.json"), "w"), indent=1)


if __name__ == "__main__":
    main()
