import json,sys,os
sys.path.insert(0,'/verif')
os.environ.setdefault("VERIF_REPO","/repo")
from vf.common import load; ns=load()
from vf import build as B, instr as I
d=json.load(open(sys.argv[1])); spec=d['case']['spec'] if 'case' in d else d['spec']
I.install(); I.set_order(I.default_order(spec))
m=B.build(spec)
class Mon:
    def on_phase(self,tr,p,phase,snap):
        if phase in sys.argv[2:] or (len(sys.argv)<3 and phase=='allocated'):
            print("--",phase,"step",snap.step,"absent" if snap.absent_step else "")
            for t in p.workflow.task_list:
                print("   ",t.ID,t.state.name,round(t.remaining_work_amount,3),[w.ID for w in t.allocated_worker_list],[f.ID for f in t.allocated_facility_list])
            for c in p.product.component_list:
                print("   ",c.ID,c.state.name,c.placed_workplace.ID if c.placed_workplace else None)
            for wp in p.organization.workplace_list:
                print("   ",wp.ID,[c.ID for c in wp.placed_component_list],[(f.ID,f.state.name) for f in wp.facility_list])
            print("    workers",[(w.ID,w.state.name) for tm in p.organization.team_list for w in tm.worker_list])
tr=I.Tracer([Mon()])
with I.tracing(tr):
    try: B.run(m.project,spec)
    except Exception as e:
        import traceback; traceback.print_exc()
print(m.project.status, m.project.time)
