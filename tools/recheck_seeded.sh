#!/bin/sh
# usage: tools/recheck_seeded.sh [pattern]  - every seeded change (matching pattern) against the quick checks that
# are recorded in its meta.json as having reported it; prints one line per change; result in out/recheck.tsv
cd "$(dirname "$0")/.." || exit 2
PAT="${1:-}"
mkdir -p out/mut
python3 - "$PAT" <<'PY' > out/recheck_plan.txt
import json, sys, glob, os
pat = sys.argv[1]
for d in sorted(glob.glob('seeded/*/')):
    name = os.path.basename(d.rstrip('/'))
    if pat not in name:
        continue
    meta = json.load(open(d + 'meta.json'))
    det = meta.get('detected_by') or {}
    props = [p for p, v in sorted(det.items()) if isinstance(v, dict) and v.get('exit') == 1]
    if not props and meta.get('detected_by_thorough_tier'):
        continue      # (reported by the thorough tier only: not part of this quick re-check)
    if not props:
        props = list(meta.get('properties') or [])
    print(name, ' '.join(props[:3]))
PY
: > out/recheck.tsv
run_one() {
  name="$1"; shift
  SKIP_TESTS=1 tools/try_patch.sh "seeded/$name/patch.diff" "rc_$name" "$@" > "out/mut/rc_$name.log" 2>&1
  r=$(grep '^result' "out/mut/rc_$name.log" | sed 's/result\[[^]]*\] //' | awk '{printf "%s %s; ", $1, $2}')
  miss=$(grep '^result' "out/mut/rc_$name.log" | grep -c 'exit=0')
  echo "$name	$r	$( [ "$miss" = "0" ] && echo ok || echo MISSED )" | tee -a out/recheck.tsv
}
N=0
while read -r name props; do
  [ -z "$props" ] && continue
  run_one "$name" $props &
  N=$((N+1))
  if [ $((N % ${PAR:-3})) -eq 0 ]; then wait; fi
done < out/recheck_plan.txt
wait
echo "missed: $(grep -c MISSED out/recheck.tsv) of $(wc -l < out/recheck.tsv)"
