#!/bin/sh
# usage: tools/selftest.sh [pattern]   - run every mutant (or those matching pattern) through its expected quick check(s)
cd "$(dirname "$0")/.." || exit 2
PAT="${1:-}"
python3 - "$PAT" <<'PY' > out/selftest_plan.txt
import json,sys
pat=sys.argv[1]
for m in json.load(open('mutants/mutants.json')):
    if pat in m['name']:
        print(m['name'], ' '.join(m['expected']))
PY
mkdir -p out/mut
run_one() {
  name="$1"; shift
  tools/try_patch.sh "mutants/$name.patch" "$name" "$@" > "out/mut/$name.log" 2>&1
  t=$(grep '^tests' "out/mut/$name.log" | sed 's/.*: //')
  r=$(grep '^result' "out/mut/$name.log" | sed 's/result\[[^]]*\] //' | cut -c1-150 | tr '\n' ';')
  echo "$name | tests: $t | $r"
}
N=0
while read -r name props; do
  run_one "$name" $props &
  N=$((N+1))
  if [ $((N % 4)) -eq 0 ]; then wait; fi
done < out/selftest_plan.txt
wait
