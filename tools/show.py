import json,sys
d=json.load(open(sys.argv[1]))
print(json.dumps(d['violation'],indent=1))
s=d['case']['spec']
print("SIM",s['sim'], d['case'].get('source'))
for t in s['tasks']: print({k:v for k,v in t.items() if v not in (None,False,[],0.0) or k in('work',)})
for c in s['comps']: print(c)
for w in s['wps']:
    print({k:v for k,v in w.items() if k!='facilities'})
    for f in w['facilities']: print('   ',f)
for tm in s['teams']:
    print({k:v for k,v in tm.items() if k!='workers'})
    for w in tm['workers']: print('   ',w)
