#!/bin/sh
# usage: tools/run_all.sh [quick|thorough]   (VERIF_SEED honoured)
cd "$(dirname "$0")/.." || exit 2
TIER="${1:-quick}"
mkdir -p out
rc=0
for p in C01 C02 C03 C04 C05 C06 C07 C08 C09 C10 C11 C12 C13 C14 C15 C16 C17 C18 C19 C20; do
  ./check $p --tier $TIER > out/last_$p.txt 2>&1
  r=$?
  echo "$p exit=$r $(grep -c '^VIOLATION' out/last_$p.txt) violations, $(grep -c '^KNOWN-FINDING' out/last_$p.txt) known, $(head -1 out/last_$p.txt)"
  [ $r -ne 0 ] && rc=1
done
exit $rc
