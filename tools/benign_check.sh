#!/bin/sh
# Behaviour-preserving refactorings (benign/*.patch): no check may raise an alarm on them.
cd "$(dirname "$0")/.." || exit 2
for pf in benign/*.patch; do
  name=$(basename "$pf" .patch)
  WT="/tmp/vfben_${name}_$$"
  git -C /repo worktree add -q "$WT" HEAD || continue
  git -C "$WT" apply "$(pwd)/$pf" || { echo "$name PATCH-DOES-NOT-APPLY"; git -C /repo worktree remove --force "$WT"; continue; }
  T=$(cd "$WT" && /venv/bin/python -m pytest -q -p no:cacheprovider --timeout=900 -x 2>&1 | tail -1)
  row="$name tests[$T]"
  for P in C01 C02 C03 C04 C05 C06 C07 C08 C09 C10 C11 C12 C13 C14 C15 C16 C17 C18 C19 C20; do
    VERIF_REPO="$WT" VERIF_OUTDIR="out/ben/$name" VERIF_EVIDENCE_DIR="out/ben/$name/ev" ./check $P --n "${N:-500}" > out/ben_last.txt 2>&1
    rc=$?
    [ $rc -ne 0 ] && row="$row ALARM:$P(rc=$rc):$(grep -m1 'unlisted violation\|INCONCL' out/ben_last.txt | cut -c1-100)"
  done
  echo "$row"
  git -C /repo worktree remove --force "$WT" >/dev/null 2>&1
  rm -rf "out/ben/$name"
done
