#!/usr/bin/env python3
"""Regenerate /verif/MANIFEST.json from the registry and the texts below."""
import json
import os
import sys

HERE = os.path.dirname(os.path.dirname(os.path.abspath(__file__)))
sys.path.insert(0, HERE)
from vf import registry, meta  # noqa: E402

TECH = {
    "C01": ("4/C01", "invariant at hook + state-write watchpoints + offline log checker",
            "Runtime monitoring of the real simulate(): every write to BaseTask.state is gate-checked against the live predecessor states at that instant (FS/SS on leaving NONE, FF/SF on FINISHED, rank never decreases), the same relations are re-checked at every hook phase and a third time offline on state_record_list alone. Exploration of generated models; right level because the property is a per-step safety invariant over all graphs x kinds x timings."),
    "C02": ("4/C02", "conservation monitor at hook (snapshot at 'allocated' vs 'performed') + write watchpoint on remaining work + offline log checker",
            "At every step of every run the change of remaining work of every task is compared with the contribution computed independently from the allocation snapshot (skills, pairs, absences, unit rate); writes to remaining_work_amount outside perform / outside the FINISHED reset are reported; finish timing checked at the next 'updated'."),
    "C03": ("4/C03", "structural invariant at hook phases + offline cross-check of ID logs",
            "Exclusivity, two-way consistency (identity), holder state and WORKING <=> holds-and-present are asserted on the live lists at 'updated'/'allocated'/'recorded' of every step; allocation logs of tasks and resources are cross-checked offline."),
    "C04": ("4/C04", "postcondition on every new allocation at the 'allocated' phase, against the static model",
            "Every allocation that appears between 'recorded' of the previous step and 'allocated' is checked for skill, team/workplace targeting, absence, fixed-ID lists, solo flags, pairing and operating skill; the generator draws skills independently of targeting so ineligible candidates are really free."),
    "C05": ("4/C05", "bounded-progress monitor on feasible model classes + status oracle on every run",
            "Liveness restated as bounded progress: models of two classes in which completion follows from the stated rules must return SUCCESS within the total sequential work bound; status truthfulness, max_time boundary, unservable-task and no-exception clauses are checked on every run."),
    "C06": ("4/C06", "invariant at hook (idle eligible worker / pair at 'allocated') + offline log checker for waiting clauses",
            "At every working step free workers are matched against waiting tasks with an independent eligibility predicate; NONE-with-satisfied-dependencies, READY automatic tasks and zero-remaining-not-finished are decided on the recorded snapshots requiring the dependency to have held at the previous step."),
    "C07": ("4/C07", "conservation checker over cost logs + online check of the charge against the live state",
            "All cost lists at all levels are recomputed from the state logs after every run (resource, team, workplace, organization, project, total) and each appended charge is compared with the live state at charge time."),
    "C08": ("4/C08", "online length/last-entry monitor at 'recorded' over all logs found by reflection + alignment checker after every operation of a history",
            "Histories of simulate / resume / backward_simulate / reverse_log_information / initialize are executed on the real objects; after every recorded step and every operation all logs must be aligned with project.time and the newest entry must equal the live attribute (display rules applied)."),
    "C09": ("4/C09", "differential oracle between executions of the same real code under controlled set-iteration orders, addresses, processes and histories + mutable-default sanitizer",
            "The harness controls the iteration order of the library's task/component sets through ID-keyed hash assignments (the 'schedule' of this single-threaded program) and compares complete dumps exactly; plus native hashes, fresh interpreters, re-runs, runs after histories on the same and on another project, and a snapshot/compare of every function default and module global."),
    "C10": ("4/C10", "in-step monitor at hook + differential oracle (absence run with steps removed vs absence-free run)",
            "In-step clauses are asserted at every absence step; the equivalence clause is decided by exact comparison of all logs on the class the property names."),
    "C11": ("4/C11", "postcondition wrapper on every sort_* call (direct and inside simulate) + inversion monitor at 'allocated'",
            "Each sort result must be a permutation ordered by the documented primary key (ties free); rules must be accepted for every kind they are used with; an allocation to a lower-priority task while a strictly higher-priority non-facility task could accept the worker is an inversion."),
    "C12": ("4/C12", "postcondition wrapper on update_PERT_data against an independent critical-path computation",
            "Every PERT update made by initialize() and by every step of simulate() on FS-only networks, and standalone update histories, are compared with a textbook topological forward/backward pass written in the harness."),
    "C13": ("4/C13", "placement watchpoints (every write to placed_workplace is an event) + invariants at hook phases + offline log re-check",
            "Moves are reconstructed from write events (source = last non-None place, transient None ignored), checked for once-per-step, conveyor origin, not-while-working; location uniqueness, two-way consistency, capacity, leave-when-finished and facility site are asserted at phases. Nested-product defects are recorded as known findings keyed by mechanism."),
    "C14": ("4/C14", "postcondition at hook phases + write watchpoint on component state + offline log checker",
            "FINISHED <=> all tasks FINISHED, WORKING task => WORKING component, never NONE with active task / again, never leaves FINISHED: at every phase, on every write (the two 'never' clauses) and on the logs."),
    "C15": ("4/C15", "differential oracle: paused-and-resumed vs uninterrupted execution (crash-point enumeration over k in thorough tier)",
            "For each model the uninterrupted run is the reference; for each pause step k a fresh model is paused and resumed in memory and through a JSON file; complete dumps compared exactly under a pinned iteration order."),
    "C16": ("4/C16", "round-trip monitor + reference walker + re-simulation differential + parameter coverage decided by execution",
            "Projects at 8 life stages are written, read into a new project and written again (value-for-value JSON comparison), every cross reference must be an identity member of the restored project, re-simulation must agree, and each constructor parameter that is observed to change a simulation must survive save/load."),
    "C17": ("4/C17", "fault injection from the step observer at enumerated (step, phase) points + identity snapshot of the dependency structure + forward differential",
            "fault_enumeration: for each model the injection points are all (step, phase) notifications of an un-faulted backward run (thorough: all of them; quick: a sample incl. first and last); after each aborted run the input/output lists must be identical by object identity and order, no helper task may remain, and a forward simulate must reproduce the reference dump."),
    "C18": ("4/C18", "offline alignment checker over all logs (reflection) after every edit of a random edit sequence + insert/remove round-trip differential",
            "Every remove/insert call must complete, change every log by the same number of entries, keep project.time equal to the common length, insert only no-work zero-cost steps, and insert-then-remove must restore the previous logs."),
    "C19": ("4/C19", "reference run-length encoder as oracle; exhaustive enumeration of short state sequences + random long ones + real logs",
            "All sequences up to length 6 (quick) / 8 (thorough) over the task/component and worker/facility state alphabets x 4 margins are enumerated completely; chart rows, extract queries and date arithmetic are checked on random inputs and on logs of real simulations."),
    "C20": ("4/C20", "end-to-end monitor: real sub-project run -> JSON -> configured task -> monitored parent run; attribute snapshot for the refusal clause",
            "Durations, units, number and contiguity of WORKING steps and absence of workers are read from the logs of a real parent simulation; refusal must warn and leave vars(task) unchanged."),
}

NOTE = ("Trusted base: CPython 3.12 of /venv, the harness code under /verif/vf (generators, monitors, oracles), "
        "the guarded step-observer hook in BaseProject.simulate. Holds only for the executions explored (counts in the evidence file); "
        "unit_time=1, deterministic skills, acyclic workflows.")


def main():
    checks = []
    for prop in sorted(registry.TABLE):
        ref, tech, text = TECH[prop]
        level = meta.LEVEL.get(prop, "exploration")
        checks.append(dict(
            property_id=prop,
            quick_cmd="./check %s --tier quick" % prop,
            thorough_cmd="./check %s --tier thorough" % prop,
            evidence_file="/verif/evidence/%s.json" % prop,
            replay_cmd_template="./check %s --replay {path}" % prop,
            engine="vf",
            level_claimed=dict(category=level, text=text, design_ref="DESIGN.md section " + ref),
            level_note=NOTE,
            technique=tech,
        ))
    man = dict(
        version=1,
        setup_cmd="mkdir -p out evidence && /venv/bin/python -c \"import sys; sys.path.insert(0,'/repo'); import pDESy\"",
        hooks=dict(
            guard="PDESY_VERIF",
            enable="environment variable PDESY_VERIF=1 set by ./check for its worker processes before pDESy is imported from /repo (pure Python: importing the working tree in a fresh interpreter is the rebuild)",
            baseline_off_cmd="cd /repo && env -u PDESY_VERIF /venv/bin/python -m pytest -ra -q -p no:cacheprovider --timeout=900 --continue-on-collection-errors --junitxml=/verif/out/baseline_off.junit.xml",
            source_commits=["d880f7cb53e6962a9f971400b80cb5efe8824467"],
            add_only=True,
        ),
        engines=[dict(name="vf", path="/verif/vf", serves_properties=sorted(registry.TABLE),
                      kind_free_text="runtime monitoring harness: spec generators, builder, step-observer hook consumer, attribute-write watchpoints, iteration-order control, per-property monitors and differential oracles, multi-process orchestrator writing evidence and replay files")],
        checks=checks,
        notes="All 20 properties are decided by runtime monitoring of the real code (see DESIGN.md). Exit codes: 0 held (KNOWN-FINDING lines possible), 1 violation (VIOLATION line with replay file), 2 inconclusive (monitor blind / floors not met / worker died). known_findings.json is never written at run time.",
        not_applicable=[],
    )
    json.dump(man, open(os.path.join(HERE, "MANIFEST.json"), "w"), indent=1)
    print("wrote MANIFEST.json with %d checks" % len(checks))


if __name__ == "__main__":
    main()
