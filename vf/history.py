"""Histories: sequences of API calls on one project."""
import os
import tempfile
import warnings

from . import build as B
from . import instr as I
from .runner import ns, exc_info
from .common import VERIF_DIR

SCRATCH = os.path.join(VERIF_DIR, "out", "scratch")


def scratch_file(tag):
    os.makedirs(SCRATCH, exist_ok=True)
    fd, path = tempfile.mkstemp(prefix="vf_%s_%d_" % (tag, os.getpid()), suffix=".json", dir=SCRATCH)
    os.close(fd)
    return path


class Hist(object):
    def __init__(self, spec, order=None, tracer=None, model=None):
        I.install()
        if order is not False:
            I.set_order(order or I.default_order(spec))
        self.spec = spec
        self.model = model or B.build(spec)
        self.p = self.model.project
        self.tr = tracer
        self.log = []
        self.shared_absence = None   # if set: this very list object is passed to every simulate call

    def _call(self, fn, *a, **k):
        try:
            with warnings.catch_warnings():
                # (warnings_as_errors: the caller runs with -W error; an operation that "completes without error"
                # must not depend on the warnings filter)
                warnings.simplefilter("error" if getattr(self, "warnings_as_errors", False) else "ignore")
                if self.tr is not None:
                    with I.tracing(self.tr):
                        fn(*a, **k)
                else:
                    fn(*a, **k)
        except Exception as e:
            return exc_info(e)
        return None

    def do(self, op):
        kind = op[0]
        p, spec = self.p, self.spec
        self.log.append(op)
        if self.shared_absence is not None and kind in ("sim", "pause", "backward"):
            kw = B.sim_args(spec)
            kw["absence_time_list"] = self.shared_absence
            if kind == "pause":
                kw["max_time"] = op[1]
            if kind == "backward":
                return self._call(p.backward_simulate, considering_due_time_of_tail_tasks=bool(op[1]), reverse_log_information=bool(op[2]), **kw)
            return self._call(p.simulate, **kw)
        if kind == "sim":
            return self._call(p.simulate, **B.sim_args(spec))
        if kind == "pause":
            return self._call(p.simulate, **B.sim_args(spec, max_time=op[1]))
        if kind == "resume":
            return self._call(p.simulate, **B.sim_args(spec, initialize_state_info=False, initialize_log_info=False))
        if kind == "resume_abs":      # resumed with ANOTHER project absence list than the paused run had
            return self._call(p.simulate, **B.sim_args(spec, initialize_state_info=False, initialize_log_info=False, absence_time_list=list(op[1])))
        if kind == "sim_keeplog_abs":  # appended run with another project absence list
            return self._call(p.simulate, **B.sim_args(spec, initialize_log_info=False, max_time=p.time + spec["sim"]["max_time"], absence_time_list=list(op[1])))
        if kind == "sim_keepstate":    # the mixed combination: logs and clock reset, state kept
            return self._call(p.simulate, **B.sim_args(spec, initialize_state_info=False, initialize_log_info=True))
        if kind == "sim_keeplog":
            return self._call(p.simulate, **B.sim_args(spec, initialize_log_info=False, max_time=p.time + spec["sim"]["max_time"]))
        if kind == "backward":
            return self._call(p.backward_simulate, considering_due_time_of_tail_tasks=bool(op[1]),
                              reverse_log_information=bool(op[2]), **B.sim_args(spec))
        if kind == "reverse":
            return self._call(p.reverse_log_information)
        if kind == "init":
            return self._call(p.initialize)
        if kind == "remove_abs":
            return self._call(p.remove_absence_time_list)
        if kind == "insert_abs":
            return self._call(p.insert_absence_time_list, list(op[1]))
        if kind == "saveload":
            path = scratch_file("sl")
            try:
                err = self._call(p.write_simple_json, path)
                if err:
                    return err
                q = ns.BaseProject()
                err = self._call(q.read_simple_json, path)
                if err:
                    return err
                self.p = q
            finally:
                if os.path.exists(path):
                    os.remove(path)
            return None
        if kind == "queries":
            # read-only questions: Gantt intervals / chart rows of every object and the state queries
            def ask():
                import datetime as _dt
                init, unit = _dt.datetime(2021, 3, 1, 8, 0, 0), _dt.timedelta(hours=1)
                for t in p.workflow.task_list:
                    t.get_time_list_for_gannt_chart()
                    t.get_time_list_for_gannt_chart(finish_margin=0.5)
                for c in p.product.component_list:
                    c.get_time_list_for_gannt_chart()
                for tm in p.organization.team_list:
                    for w in tm.worker_list:
                        w.get_time_list_for_gannt_chart()
                for wp in p.organization.workplace_list:
                    for f in wp.facility_list:
                        f.get_time_list_for_gannt_chart()
                p.workflow.create_data_for_gantt_plotly(init, unit)
                p.product.create_data_for_gantt_plotly(init, unit)
                p.organization.create_data_for_gantt_plotly(init, unit)
                times = [0, max(0, p.time - 1)]
                p.workflow.extract_working_task_list(times)
                p.workflow.extract_finished_task_list(times)
                p.product.extract_working_component_list(times)
                for tm in p.organization.team_list:
                    tm.extract_working_worker_list(times)
            return self._call(ask)
        if kind in ("deepcopy", "pickle"):
            # the project is duplicated with the copy protocol (the original stays alive) and the COPY is used from now on
            import copy as _copy
            import pickle as _pickle
            self._kept_alive = getattr(self, "_kept_alive", []) + [p]
            box = {}

            def dup():
                box["q"] = _copy.deepcopy(p) if kind == "deepcopy" else _pickle.loads(_pickle.dumps(p))
            err = self._call(dup)
            if err:
                return err
            self.p = box["q"]
            return None
        if kind == "reload":
            # write the project and read the file back into the SAME BaseProject object
            path = scratch_file("rl")
            try:
                err = self._call(p.write_simple_json, path)
                if err:
                    return err
                return self._call(p.read_simple_json, path)
            finally:
                if os.path.exists(path):
                    os.remove(path)
        raise ValueError(kind)
