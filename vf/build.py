"""Build real pDESy objects from a spec; run; dump."""
import datetime
import hashlib
import json
import warnings

from .common import load


def fresh(s):
    """A string equal to ``s`` that is a *different object* (never interned)."""
    if s is None:
        return None
    return (s + "_")[:-1]


class Model:
    """The built project plus index -> object maps (spec order)."""

    def __init__(self):
        self.project = None
        self.tasks = []
        self.comps = []
        self.wps = []
        self.facs = {}      # id -> facility
        self.teams = []
        self.workers = {}   # id -> worker
        self.spec = None


def build(spec, task_overrides=None, share_ids=False):
    """share_ids=True: ID strings that are referred to from elsewhere (main_workplace_id, fixed-ID
    lists) are the very same str objects as the IDs of the objects they name (default: equal but
    distinct objects)."""
    global fresh
    ns = load()
    m = Model()
    m.spec = spec
    _fresh = fresh
    if share_ids:
        pool = {}

        def fresh(s):  # noqa: F811
            if s is None:
                return None
            return pool.setdefault(s, s)
    try:
        return _build(spec, task_overrides, ns, m)
    finally:
        fresh = _fresh


def _build(spec, task_overrides, ns, m):
    RP, WP = ns.ResourcePriorityRuleMode, ns.WorkplacePriorityRuleMode
    for i, t in enumerate(spec["tasks"]):
        kw = dict(
            name=t["name"], ID=fresh(t["id"]), default_work_amount=t["work"], default_progress=t["progress"],
            auto_task=t["auto"], need_facility=t["need_facility"],
            worker_priority_rule=RP(t["wkr"]), facility_priority_rule=RP(t["fpr"]),
            workplace_priority_rule=WP(t["wpr"]),
            fixing_allocating_worker_id_list=[fresh(x) for x in t["fixed_workers"]] if t["fixed_workers"] is not None else None,
            fixing_allocating_facility_id_list=[fresh(x) for x in t["fixed_facilities"]] if t["fixed_facilities"] is not None else None,
        )
        if t.get("due") is not None:
            kw["due_time"] = t["due"]
        if t.get("rate") is not None:
            kw["work_amount_progress_of_unit_step_time"] = t["rate"]
        cls = ns.BaseTask
        if task_overrides and i in task_overrides:
            cls, extra = task_overrides[i]
            kw.update(extra)
        m.tasks.append(cls(**kw))
    for i, t in enumerate(spec["tasks"]):
        for j, kind in t["deps"]:
            m.tasks[i].append_input_task(m.tasks[j], ns.BaseTaskDependency(kind))
    m.comps = [ns.BaseComponent(c["name"], ID=fresh(c["id"]), space_size=c["space"]) for c in spec["comps"]]
    for k, c in enumerate(spec["comps"]):
        for ch in c["children"]:
            m.comps[k].append_child_component(m.comps[ch])
    for i, t in enumerate(spec["tasks"]):
        if t["component"] is not None:
            m.comps[t["component"]].append_targeted_task(m.tasks[i])
    for k, w in enumerate(spec["wps"]):
        facs = []
        for f in w["facilities"]:
            fo = ns.BaseFacility(f["name"], ID=fresh(f["id"]), cost_per_time=f["cost"], solo_working=f["solo"],
                                 workamount_skill_mean_map=dict(f["skills"]), absence_time_list=list(f["absence"]))
            facs.append(fo)
            m.facs[f["id"]] = fo
        if w.get("ctor_inputs") and all(j < k for j in w["inputs"]):
            # links given to the constructor are one-sided (the input workplace's output list is not touched)
            m.wps.append(ns.BaseWorkplace(w["name"], ID=fresh(w["id"]), facility_list=facs, max_space_size=w["max_space"],
                                          input_workplace_list=[m.wps[j] for j in w["inputs"]]))
        else:
            m.wps.append(ns.BaseWorkplace(w["name"], ID=fresh(w["id"]), facility_list=facs, max_space_size=w["max_space"]))
    for k, w in enumerate(spec["wps"]):
        if not (w.get("ctor_inputs") and all(j < k for j in w["inputs"])):
            for j in w["inputs"]:
                m.wps[k].append_input_workplace(m.wps[j])
        for i in w["targets"]:
            m.wps[k].append_targeted_task(m.tasks[i])
    for k, tm in enumerate(spec["teams"]):
        if tm.get("ctor_targets"):
            # targets given to the constructor: team.targeted_task_list is set, the tasks'
            # allocated_team_list is not (the library decides by team.targeted_task_list)
            team = ns.BaseTeam(tm["name"], ID=fresh(tm["id"]), targeted_task_list=[m.tasks[i] for i in tm["targets"]])
        else:
            team = ns.BaseTeam(tm["name"], ID=fresh(tm["id"]))
        for w in tm["workers"]:
            wo = ns.BaseWorker(w["name"], ID=fresh(w["id"]), cost_per_time=w["cost"], solo_working=w["solo"],
                               workamount_skill_mean_map=dict(w["skills"]), facility_skill_map=dict(w["fskills"]),
                               absence_time_list=list(w["absence"]), main_workplace_id=fresh(w["main_wp"]))
            if w.get("loan_team") is not None:
                # a worker "on loan": listed by this team, but team_id names another team (the
                # allocator decides by team_id); BaseTeam(worker_list=...) keeps a team_id that is set
                wo.team_id = fresh(spec["teams"][w["loan_team"]]["id"])
                team.worker_list.append(wo)
            else:
                team.add_worker(wo)
            m.workers[w["id"]] = wo
        if not tm.get("ctor_targets"):
            for i in tm["targets"]:
                team.append_targeted_task(m.tasks[i])
        m.teams.append(team)
    m.project = ns.BaseProject(
        init_datetime=(datetime.datetime(*spec["init_datetime"]) if spec.get("init_datetime") else datetime.datetime(2020, 1, 1, 8, 0, 0)),
        unit_timedelta=datetime.timedelta(days=1),
        product=ns.BaseProduct(m.comps),
        workflow=ns.BaseWorkflow([m.tasks[k] for k in spec["task_order"]] if spec.get("task_order") else list(m.tasks)),
        organization=ns.BaseOrganization(m.teams, m.wps))
    return m


def sim_args(spec, **kw):
    ns = load()
    s = spec["sim"]
    args = dict(task_priority_rule=ns.TaskPriorityRuleMode(s["rule"]), absence_time_list=list(s["absence"]),
                perform_auto_task_while_absence_time=bool(s["auto_flag"]), max_time=s["max_time"])
    if s.get("rule_as_int"):
        args["task_priority_rule"] = int(s["rule"])
    args.update(kw)
    how = s.get("absence_as")
    if how and isinstance(args.get("absence_time_list"), list):
        a = args["absence_time_list"]
        if how == "tuple":
            args["absence_time_list"] = tuple(a)
        elif how == "set":
            args["absence_time_list"] = set(a)
        elif how == "range" and a and sorted(a) == list(range(min(a), max(a) + 1)) and len(set(a)) == len(a):
            args["absence_time_list"] = range(min(a), max(a) + 1)
    return args


def run(project, spec, **kw):
    with warnings.catch_warnings():
        warnings.simplefilter("ignore")
        project.simulate(**sim_args(spec, **kw))
    return project


def declared_dependencies_missing(m, spec):
    """The dependencies the spec declared that the built model does not hold (as (successor, predecessor, kind));
    the monitors read the model's own lists, so a link that the library dropped at declaration would go unnoticed."""
    ns = load()
    out = []
    for i, t in enumerate(spec["tasks"]):
        for j, kind in t["deps"]:
            succ, pred = m.tasks[i], m.tasks[j]
            k = ns.BaseTaskDependency(kind)
            if not any(p is pred and d == k for p, d in succ.input_task_list) or not any(s is succ and d == k for s, d in pred.output_task_list):
                out.append((succ.ID, pred.ID, k.name))
    return out


def _l(x):
    return list(x) if x is not None else None


def dump(p, live=True):
    """Complete, canonical, JSON-able dump of every log (and optionally the live state)."""
    d = {"time": p.time, "status": int(p.status), "cost": list(p.cost_list), "mode": int(p.simulation_mode),
         "absence": list(p.absence_time_list)}
    for t in p.workflow.task_list:
        e = dict(s=[int(x) for x in t.state_record_list], r=list(t.remaining_work_amount_record_list),
                 w=[_l(x) for x in t.allocated_worker_id_record], f=[_l(x) for x in t.allocated_facility_id_record])
        if live:
            e.update(st=int(t.state), rem=t.remaining_work_amount, aw=[w.ID for w in t.allocated_worker_list],
                     af=[f.ID for f in t.allocated_facility_list], est=t.est, eft=t.eft, lst=t.lst, lft=t.lft)
        d["T:" + t.ID] = e
    for c in p.product.component_list:
        e = dict(s=[int(x) for x in c.state_record_list], p=list(c.placed_workplace_id_record))
        if live:
            e.update(st=int(c.state), pw=c.placed_workplace.ID if c.placed_workplace is not None else None)
        d["C:" + c.ID] = e
    for tm in p.organization.team_list:
        d["TM:" + tm.ID] = dict(c=list(tm.cost_list))
        for w in tm.worker_list:
            e = dict(s=[int(x) for x in w.state_record_list], c=list(w.cost_list),
                     a=[_l(x) for x in w.assigned_task_id_record])
            if live:
                e.update(st=int(w.state), at=[t.ID for t in w.assigned_task_list])
            d["W:" + w.ID] = e
    for wp in p.organization.workplace_list:
        e = dict(c=list(wp.cost_list), p=[_l(x) for x in wp.placed_component_id_record])
        if live:
            e.update(pc=[c.ID for c in wp.placed_component_list])
        d["WP:" + wp.ID] = e
        for f in wp.facility_list:
            e = dict(s=[int(x) for x in f.state_record_list], c=list(f.cost_list),
                     a=[_l(x) for x in f.assigned_task_id_record])
            if live:
                e.update(st=int(f.state), at=[t.ID for t in f.assigned_task_list])
            d["F:" + f.ID] = e
    d["OC"] = list(p.organization.cost_list)
    if live:
        d["cpl"] = p.workflow.critical_path_length
    return d


def first_diff(a, b, path=""):
    """Path and values of the first difference between two dumps (exact comparison)."""
    if type(a) != type(b) and not (isinstance(a, (int, float)) and isinstance(b, (int, float))):
        return path, a, b
    if isinstance(a, dict):
        for k in sorted(set(a) | set(b)):
            if k not in a or k not in b:
                return path + "/" + str(k), a.get(k, "<missing>"), b.get(k, "<missing>")
            r = first_diff(a[k], b[k], path + "/" + str(k))
            if r:
                return r
        return None
    if isinstance(a, list):
        if len(a) != len(b):
            return path + "/len", len(a), len(b)
        for i, (x, y) in enumerate(zip(a, b)):
            r = first_diff(x, y, path + "/" + str(i))
            if r:
                return r
        return None
    if a != b:
        return path, a, b
    return None


def canon_hash(obj):
    return hashlib.sha1(json.dumps(obj, sort_keys=True, default=str).encode()).hexdigest()[:16]


def all_logs(p):
    """(owner label, attribute name, list) for every per-step log in the model, found by
    reflection: attributes ending in _record_list / _id_record, or named cost_list."""
    out = []

    def scan(label, obj):
        for k, v in vars(obj).items():
            name = k[4:] if k.startswith("_vf_") else k
            if isinstance(v, list) and (name.endswith("_record_list") or name.endswith("_id_record") or name == "cost_list"):
                out.append((label, name, v))

    scan("project", p)
    scan("organization", p.organization)
    for t in p.workflow.task_list:
        scan("T:" + str(t.ID), t)
    for c in p.product.component_list:
        scan("C:" + str(c.ID), c)
    for tm in p.organization.team_list:
        scan("TM:" + str(tm.ID), tm)
        for w in tm.worker_list:
            scan("W:" + str(w.ID), w)
    for wp in p.organization.workplace_list:
        scan("WP:" + str(wp.ID), wp)
        for f in wp.facility_list:
            scan("F:" + str(f.ID), f)
    return out
