"""C11: priority rules order candidates as documented; allocation never inverts task priority."""
import functools

from . import gen as G
from . import monitors as M
from . import build as B
from . import instr as I
from .runner import rng_for, forward, Result, ns, exc_info
from .build import fresh

TR, RR, WR = ns.TaskPriorityRuleMode, ns.ResourcePriorityRuleMode, ns.WorkplacePriorityRuleMode
TS = ns.BaseTaskState
INF = float("inf")


# ---------------------------------------------------------------------------------------
# documented keys (primary key only; ties impose no order)
# ---------------------------------------------------------------------------------------
def task_key(rule, t):
    if rule == TR.TSLACK:
        return t.lst - t.est
    if rule == TR.EST:
        return t.est
    if rule == TR.SPT:
        return t.default_work_amount
    if rule == TR.LPT:
        return -t.default_work_amount
    if rule == TR.FIFO:
        return -sum(1 for s in t.state_record_list if s == TS.READY)
    if rule == TR.LRPT:
        return -t.remaining_work_amount
    if rule == TR.SRPT:
        return t.remaining_work_amount
    if rule == TR.LWRPT:
        return -t.parent_workflow.critical_path_length
    if rule == TR.SWRPT:
        return t.parent_workflow.critical_path_length
    return None


def worker_key(rule, w, kw):
    if rule == RR.MW:
        return 0 if (w.main_workplace_id == kw.get("workplace_id")) else 1
    if rule == RR.SSP:
        return sum(w.workamount_skill_mean_map.values())
    if rule == RR.VC:
        return w.cost_per_time
    if rule == RR.HSV:
        return -w.workamount_skill_mean_map.get(kw.get("name"), -INF)
    return None


def facility_key(rule, f, kw):
    if rule == RR.SSP:
        return sum(f.workamount_skill_mean_map.values())
    if rule == RR.VC:
        return f.cost_per_time
    if rule == RR.HSV:
        return -f.workamount_skill_mean_map.get(kw.get("name"), -INF)
    return None  # MW on facilities: no documented key


def workplace_key(rule, wp, kw):
    if rule == WR.FSS:
        return -(wp.max_space_size - sum(c.space_size for c in wp.placed_component_list))
    if rule == WR.SSP:
        nm = kw.get("name")
        return -sum(f.workamount_skill_mean_map[nm] for f in wp.facility_list
                    if f.workamount_skill_mean_map.get(nm, 0.0) > 1e-10)
    return None


KEYFN = {"task": lambda rule, x, kw: task_key(rule, x), "worker": worker_key, "facility": facility_key,
         "workplace": workplace_key}


class SortChecker(object):
    def __init__(self, sink):
        self.sink = sink      # object with .violate(prop, mech, msg, **w) and .count(key)

    def check(self, kind, rule, inp, out, kw, where):
        self.sink.count("C11.sort_calls")
        self.sink.count("C11.sort.%s.%s" % (kind, getattr(rule, "name", rule)))
        if not isinstance(out, list) or sorted(map(id, inp)) != sorted(map(id, out)):
            self.sink.violate("C11", "C11/not-a-permutation:%s:%s" % (kind, getattr(rule, "name", rule)),
                              "%s: sort_%s_list(%s) returned %d items for %d inputs (not a permutation)" % (
                                  where, kind, rule, len(out) if isinstance(out, list) else -1, len(inp)))
            return
        keys = []
        try:
            keys = [KEYFN[kind](rule, x, kw) for x in out]
        except Exception:
            return
        if keys and keys[0] is None:
            return
        if len(set(keys)) >= 2:
            self.sink.count("C11.sort_calls_with_distinct_keys")
        for a in range(len(keys) - 1):
            if keys[a] > keys[a + 1]:
                self.sink.violate("C11", "C11/mis-sorted:%s:%s" % (kind, getattr(rule, "name", rule)),
                                  "%s: sort_%s_list(%s): element %d (key %r) precedes element %d (key %r)" % (
                                      where, kind, getattr(rule, "name", rule), a, keys[a], a + 1, keys[a + 1]),
                                  keys=[k if k not in (INF, -INF) else str(k) for k in keys], kwargs={k: str(v) for k, v in kw.items()})
                return


_wrapped = {}
_current = [None]


def install_sort_wrappers():
    """Wrap sort_* on base_priority_rule *and* on base_project (bound early by from-import)."""
    if _wrapped:
        return
    for name, kind in (("sort_task_list", "task"), ("sort_worker_list", "worker"),
                       ("sort_facility_list", "facility"), ("sort_workplace_list", "workplace")):
        orig = getattr(ns.pr, name)

        def mk(orig, kind, name):
            @functools.wraps(orig)
            def wrapper(lst, *a, **kw):
                chk = _current[0]
                if chk is None:
                    return orig(lst, *a, **kw)
                inp = list(lst)
                rule = a[0] if a else kw.get("priority_rule_mode")
                if rule is None:
                    rule = {"task": TR.TSLACK, "worker": RR.SSP, "facility": RR.SSP, "workplace": WR.FSS}[kind]
                try:
                    out = orig(lst, *a, **kw)
                except Exception as e:
                    chk.sink.violate("C11", "C11/rule-rejected:%s:%s:%s" % (kind, getattr(rule, "name", rule), type(e).__name__),
                                     "simulate: %s(%s) raised %s: %s with kwargs %s" % (name, getattr(rule, "name", rule), type(e).__name__, e, sorted(kw)))
                    raise
                kws = {k: v for k, v in kw.items() if k != "priority_rule_mode"}
                chk.check(kind, rule, inp, out, kws, "simulate")
                return out
            return wrapper
        w = mk(orig, kind, name)
        _wrapped[name] = (orig, w)
        setattr(ns.pr, name, w)
        if getattr(ns.bp, name, None) is orig:
            setattr(ns.bp, name, w)
        else:
            raise RuntimeError("base_project.%s is not base_priority_rule.%s" % (name, name))


class Sink(object):
    def __init__(self, res):
        self.res = res

    def violate(self, prop, mech, msg, **w):
        if len(self.res["violations"]) < 25:
            self.res.violate(prop, mech, msg, **w)

    def count(self, k, n=1):
        self.res.count(k, n)


# ---------------------------------------------------------------------------------------
# inversion monitor
# ---------------------------------------------------------------------------------------
class MonInversion(object):
    def __init__(self, rule):
        self.rule = rule
        self.keys = None
        self.touched = set()

    def on_write(self, tr, obj, attr, old, new):
        if attr == "placed_workplace":
            self.touched.add(id(obj))

    def on_phase(self, tr, project, phase, snap):
        if phase == "recorded":
            self.touched = set()
        if phase == "updated":
            self.keys = {}
            for t in project.workflow.task_list:
                self.keys[t] = task_key(self.rule, t)
            return
        if phase != "allocated" or snap.absent_step or self.keys is None:
            return
        prev = tr.prev_rec
        waiting = [t for t, s in snap.tstate.items() if s in (TS.READY, TS.WORKING) and not t.auto_task]
        for L in waiting:
            pw = set(map(id, prev.aw.get(L, ()))) if prev is not None else set()
            new = [w for w in snap.aw[L] if id(w) not in pw]
            if not new:
                continue
            for H in waiting:
                if H is L:
                    continue
                if not (self.keys[H] < self.keys[L]):
                    continue
                if H.need_facility:
                    # the higher-priority task needs a (worker, facility) pair: inversion if a facility that
                    # could serve it is still FREE after the pass and the worker given to L can operate it
                    if any(x.solo_working for x in snap.aw[H]) or any(x.solo_working for x in snap.af[H]):
                        continue     # H works with a solo worker or a solo facility: it accepts nobody else
                    for f in M.usable_free_facilities(project, snap, tr, H, self.touched):
                        for w in new:
                            tr.counters["C11.contention_pairs_with_facility"] += 1
                            if not M.worker_eligible(project, w, H):
                                continue
                            if not (w.facility_skill_map.get(f.name, 0.0) > 1e-10):
                                continue
                            if w.solo_working and snap.aw[H]:
                                continue
                            tr.violate("C11", "C11/priority-inversion:%s:facility-task" % self.rule.name,
                                       "step %d: worker %s newly given to %s (key %r) although higher-priority facility task %s (key %r) could accept him with the FREE facility %s" % (
                                           snap.step, w.ID, L.ID, self.keys[L], H.ID, self.keys[H], f.ID), task=L, res=w, higher=H)
                    continue
                hs = snap.aw[H]
                if any(x.solo_working for x in hs):
                    continue
                for w in new:
                    tr.counters["C11.contention_pairs"] += 1
                    if not M.worker_eligible(project, w, H):
                        continue
                    if w.solo_working and hs:
                        continue
                    tr.violate("C11", "C11/priority-inversion:%s" % self.rule.name,
                               "step %d: worker %s newly given to %s (key %r) although higher-priority %s (key %r) could accept him" % (
                                   snap.step, w.ID, L.ID, self.keys[L], H.ID, self.keys[H]), task=L, res=w, higher=H)
        # contention situations: >= 2 waiting tasks sharing an eligible free-at-start worker
        up = tr.last.get("updated")
        if up is not None and len(waiting) >= 2:
            for w, st in up.wstate.items():
                if up.wassigned[w]:
                    continue
                el = [t for t in waiting if M.worker_eligible(project, w, t)]
                if len(el) >= 2 and len(set(self.keys[t] for t in el)) >= 2:
                    tr.counters["C11.contention_situations"] += 1
                    break


# ---------------------------------------------------------------------------------------
# cases
# ---------------------------------------------------------------------------------------
def gen_returning_worker(rng):
    """Contention that arises *between* changes of the waiting list: long independent (or lightly
    linked) tasks, specialists who are always there, and a versatile worker who is individually absent
    for a block of steps and returns while the priority keys of the waiting tasks have moved."""
    n = rng.randint(2, 4)
    tasks = []
    for k in range(n):
        deps = [[k - 1, rng.choice([G.FS, G.SS])]] if k and rng.random() < 0.25 else []
        tasks.append(G._simple_task(k, rng.choice([4, 5, 6, 8, 10, 12]), deps))
        tasks[-1]["wkr"] = rng.choice([-1, 0, 1, 2])
    workers = []
    for k in range(n):
        if rng.random() < 0.8:
            workers.append(G._worker(0, k, {"t%d" % k: rng.choice([0.5, 1.0, 1.0, 2.0])}, cost=1.0))
    a0 = rng.choice([0, 0, 1, 2, 3])
    block = list(range(a0, a0 + rng.randint(2, 7)))
    for j in range(rng.randint(1, 2)):
        w = G._worker(0, n + j, {"t%d" % k: rng.choice([1.0, 1.0, 2.0]) for k in range(n) if rng.random() < 0.85}, cost=1.0)
        w["absence"] = block if j == 0 else sorted(rng.sample(range(0, 12), 3))
        workers.append(w)
    teams = [dict(name="team0", id="TM0", targets=list(range(n)), workers=workers)]
    return dict(tasks=tasks, comps=[], wps=[], teams=teams,
                sim=dict(rule=rng.choice([0, 6, 5, 4, 6, 5]), absence=[], auto_flag=False, max_time=80))


def gen_partial_operators(rng):
    """Facility tasks whose workplace has several skilled facilities of which each worker can operate only
    some (and not necessarily the first in facility-priority order), next to plain tasks the same workers
    can do: whether the worker ends up at the higher-priority facility task depends on the allocator going
    through ALL facilities of the workplace."""
    nf = rng.randint(1, 2)          # facility tasks (one single-task component each)
    npl = rng.randint(1, 2)         # plain tasks
    tasks, comps = [], []
    for k in range(nf):
        t = G._simple_task(k, rng.choice([2, 3, 4, 6]), [])
        t["need_facility"], t["component"] = True, k
        t["fpr"], t["wkr"] = rng.choice([-1, 0, 1, 2]), rng.choice([-1, 0, 1, 2])
        tasks.append(t)
        comps.append(dict(name="c%d" % k, id="C%d" % k, space=1.0, children=[]))
    for k in range(nf, nf + npl):
        tasks.append(G._simple_task(k, rng.choice([1, 2, 3, 5, 8]), []))
    facs = []
    for j in range(rng.randint(2, 4)):
        facs.append(dict(name="f0_%d" % j, id="F0_%d" % j, skills={"t%d" % k: rng.choice([0.5, 1.0, 2.0]) for k in range(nf)},
                         cost=rng.choice([0.0, 1.0, 2.5]), solo=False, absence=[]))
    wps = [dict(name="wp0", id="WP0", max_space=float(nf + 1), inputs=[], targets=list(range(nf)), facilities=facs)]
    workers = []
    for j in range(rng.randint(1, 3)):
        w = G._worker(0, j, {"t%d" % k: rng.choice([1.0, 1.0, 2.0]) for k in range(nf + npl) if rng.random() < 0.9}, cost=1.0)
        can = rng.sample(range(len(facs)), rng.randint(1, max(1, len(facs) - 1)))
        w["fskills"] = {"f0_%d" % j2: (1.0 if j2 in can else rng.choice([0.0, None])) for j2 in range(len(facs))}
        w["fskills"] = {k: v for k, v in w["fskills"].items() if v is not None}
        workers.append(w)
    teams = [dict(name="team0", id="TM0", targets=list(range(nf + npl)), workers=workers)]
    return dict(tasks=tasks, comps=comps, wps=wps, teams=teams,
                sim=dict(rule=rng.randrange(9), absence=[], auto_flag=False, max_time=80))


def make_case(prop, seed, i, tier):
    rng = rng_for(prop, seed, i)
    if i % 8 == 5:
        return dict(prop=prop, i=i, kind="sim", spec=gen_partial_operators(rng), family="partial-operators")
    if i % 2 == 0:
        return dict(prop=prop, i=i, kind="direct", seed=rng.randrange(10 ** 9), n_calls=40)
    if i % 16 == 11:
        # the same family stretched to runs of hundreds of steps: tasks wait READY for more than a hundred steps
        spec = gen_returning_worker(rng)
        f = rng.choice([25, 40, 60])
        for t in spec["tasks"]:
            t["work"] = t["work"] * f
        for tm in spec["teams"]:
            for w in tm["workers"]:
                if w["absence"]:
                    a0 = w["absence"][0] * f
                    w["absence"] = list(range(a0, a0 + len(w["absence"]) * f))
        spec["sim"]["max_time"] = 3000
        if rng.random() < 0.5:
            spec["sim"]["rule"] = 4       # FIFO
        return dict(prop=prop, i=i, kind="sim", spec=spec, family="returning-worker-long")
    if i % 16 == 9:
        return dict(prop=prop, i=i, kind="sim", spec=G.gen_scale(rng), family="scale")
    if i % 8 in (3, 7):
        return dict(prop=prop, i=i, kind="sim", spec=gen_returning_worker(rng), family="returning-worker")
    spec = G.gen_random(rng, G.profile(facility_rich=rng.random() < 0.45, min_tasks=3, ensure_worker=0.9))
    # contention: many tasks share few workers
    if rng.random() < 0.5:
        allw = [w for tm in spec["teams"] for w in tm["workers"]]
        for t in spec["tasks"]:
            for w in allw[:2]:
                if rng.random() < 0.7:
                    w["skills"][t["name"]] = rng.choice([0.5, 1.0, 2.0])
        for tm in spec["teams"]:
            tm["targets"] = sorted(set(tm["targets"]) | set(k for k in range(len(spec["tasks"])) if rng.random() < 0.7))
    case = dict(prop=prop, i=i, kind="sim", spec=spec)
    if i % 8 == 1 and rng.random() < 0.6:
        # (for the pause-edit-resume cases) a task that no team targets until the pause: it is assigned to a team
        # whose workers can do it only then - and competes with what those workers would otherwise take
        cand = [k for k, t in enumerate(spec["tasks"]) if not t["auto"] and not t["need_facility"] and t["progress"] < 1.0 and t["work"] > 0]
        if cand:
            h = rng.choice(cand)
            ti = rng.randrange(len(spec["teams"]))
            for tm in spec["teams"]:
                if h in tm["targets"]:
                    tm["targets"].remove(h)
            for w in spec["teams"][ti]["workers"]:
                if rng.random() < 0.8:
                    w["skills"][spec["tasks"][h]["name"]] = rng.choice([1.0, 2.0])
            spec["tasks"][h]["fixed_workers"] = None
            case["late_target"] = [ti, h]
    return case


def direct_calls(case, res):
    import random
    rng = random.Random(case["seed"])
    chk = SortChecker(Sink(res))
    vals = [0.0, 0.0, 1.0, 1.0, 2.0, -1.0, 0.5, 3.0, 2.5]
    for _ in range(case["n_calls"]):
        n = rng.randint(0, 12)
        which = rng.choice(["task", "worker", "facility", "workplace"])
        names = ["a", "b", "c"]
        rounds = 1 if rng.random() < 0.5 else rng.randint(2, 3)   # the same objects sorted again after their keys changed
        if rounds > 1:
            res.count("C11.resort_after_change_batches")
        if which == "task":
            wf = ns.BaseWorkflow([])
            wf.critical_path_length = rng.choice(vals)
            ts = []
            for k in range(n):
                t = ns.BaseTask("n%d" % k, default_work_amount=rng.choice(vals), est=rng.choice(vals), lst=rng.choice(vals))
                t.est, t.lst = rng.choice(vals), rng.choice(vals)
                t.remaining_work_amount = rng.choice(vals)
                t.state_record_list = [rng.choice([TS.NONE, TS.READY, TS.WORKING]) for _ in range(rng.randint(0, 5))]
                t.parent_workflow = wf
                ts.append(t)
            for rd in range(rounds):
                if rd:
                    wf.critical_path_length = rng.choice(vals)
                    for t in ts:
                        if rng.random() < 0.6:
                            t.est, t.lst = rng.choice(vals), rng.choice(vals)
                            t.default_work_amount = rng.choice(vals)
                            t.remaining_work_amount = rng.choice(vals)
                        r_ = rng.random()
                        sts = [TS.NONE, TS.READY, TS.WORKING]
                        if r_ < 0.25:
                            t.state_record_list.extend(rng.choice(sts) for _ in range(rng.randint(1, 3)))
                        elif r_ < 0.5:
                            # a new log, as initialize() + a new run leave it (not shorter than the old one)
                            t.state_record_list = [rng.choice(sts) for _ in range(len(t.state_record_list) + rng.randint(0, 2))]
                        elif r_ < 0.7 and t.state_record_list:
                            for _k in range(rng.randint(1, 3)):       # entries overwritten / inserted in place (absence edits)
                                t.state_record_list[rng.randrange(len(t.state_record_list))] = rng.choice(sts)
                            if rng.random() < 0.5:
                                t.state_record_list.insert(rng.randrange(len(t.state_record_list)), rng.choice(sts))
                        elif r_ < 0.8:
                            t.state_record_list.reverse()
                for rule in TR:
                    inp = list(ts)
                    rng.shuffle(inp)
                    try:
                        out = ns.pr.sort_task_list(list(inp), rule)
                    except Exception as e:
                        res.violate("C11", "C11/rule-rejected:task:%s:%s" % (rule.name, type(e).__name__), "direct: sort_task_list(%s) raised %r" % (rule.name, e))
                        continue
                    chk.check("task", rule, inp, out, {}, "direct" if not rd else "direct, sorted again after the keys changed")
        elif which == "worker":
            ws = []
            wpids = ["WPa", "WPb", None]
            for k in range(n):
                sk = {nm: rng.choice(vals) for nm in names if rng.random() < 0.7}
                ws.append(ns.BaseWorker("w%d" % k, cost_per_time=rng.choice(vals), workamount_skill_mean_map=sk,
                                        main_workplace_id=fresh(rng.choice(wpids))))
            for rd in range(rounds):
                if rd:
                    for w in ws:
                        if rng.random() < 0.6:
                            for nm in names:
                                if rng.random() < 0.5:
                                    w.workamount_skill_mean_map[nm] = rng.choice(vals)     # in place
                        if rng.random() < 0.3:
                            w.workamount_skill_mean_map = {nm: rng.choice(vals) for nm in names if rng.random() < 0.7}
                        if rng.random() < 0.5:
                            w.cost_per_time = rng.choice(vals)
                        if rng.random() < 0.4:
                            w.main_workplace_id = fresh(rng.choice(wpids))
                for rule in RR:
                    inp = list(ws)
                    rng.shuffle(inp)
                    kw = dict(name=rng.choice(names))
                    if rng.random() < 0.8:
                        kw["workplace_id"] = fresh(rng.choice(wpids[:2]))
                    try:
                        out = ns.pr.sort_worker_list(list(inp), rule, **kw)
                    except Exception as e:
                        res.violate("C11", "C11/rule-rejected:worker:%s:%s" % (rule.name, type(e).__name__), "direct: sort_worker_list(%s) raised %r" % (rule.name, e))
                        continue
                    chk.check("worker", rule, inp, out, kw, "direct" if not rd else "direct, sorted again after the keys changed")
        elif which == "facility":
            fs = []
            for k in range(n):
                sk = {nm: rng.choice(vals) for nm in names if rng.random() < 0.7}
                fs.append(ns.BaseFacility("f%d" % k, cost_per_time=rng.choice(vals), workamount_skill_mean_map=sk))
            for rd in range(rounds):
                if rd:
                    for f in fs:
                        if rng.random() < 0.6:
                            for nm in names:
                                if rng.random() < 0.5:
                                    f.workamount_skill_mean_map[nm] = rng.choice(vals)
                        if rng.random() < 0.5:
                            f.cost_per_time = rng.choice(vals)
                for rule in RR:
                    inp = list(fs)
                    rng.shuffle(inp)
                    kw = dict(name=rng.choice(names))
                    try:
                        out = ns.pr.sort_facility_list(list(inp), rule, **kw)
                    except Exception as e:
                        res.violate("C11", "C11/rule-rejected:facility:%s:%s" % (rule.name, type(e).__name__), "direct: sort_facility_list(%s) raised %r" % (rule.name, e))
                        continue
                    chk.check("facility", rule, inp, out, kw, "direct" if not rd else "direct, sorted again after the keys changed")
        else:
            wps = []
            for k in range(n):
                facs = []
                for j in range(rng.randint(0, 3)):
                    sk = {nm: rng.choice(vals) for nm in names if rng.random() < 0.7}
                    facs.append(ns.BaseFacility("f%d_%d" % (k, j), workamount_skill_mean_map=sk))
                wp = ns.BaseWorkplace("wp%d" % k, facility_list=facs, max_space_size=rng.choice([1.0, 2.0, 3.0]))
                for j in range(rng.randint(0, 2)):
                    wp.placed_component_list.append(ns.BaseComponent("c", space_size=rng.choice([0.5, 1.0])))
                wps.append(wp)
            for rd in range(rounds):
                if rd:
                    for wp in wps:
                        if rng.random() < 0.5:
                            if wp.placed_component_list and rng.random() < 0.5:
                                wp.placed_component_list.pop()
                            else:
                                wp.placed_component_list.append(ns.BaseComponent("c", space_size=rng.choice([0.5, 1.0])))
                        if rng.random() < 0.3:
                            wp.max_space_size = rng.choice([1.0, 2.0, 3.0])
                        for f in wp.facility_list:
                            if rng.random() < 0.4:
                                f.workamount_skill_mean_map[rng.choice(names)] = rng.choice(vals)
                for rule in WR:
                    inp = list(wps)
                    rng.shuffle(inp)
                    kw = dict(name=rng.choice(names))
                    try:
                        out = ns.pr.sort_workplace_list(list(inp), rule, **kw)
                    except Exception as e:
                        res.violate("C11", "C11/rule-rejected:workplace:%s:%s" % (rule.name, type(e).__name__), "direct: sort_workplace_list(%s) raised %r" % (rule.name, e))
                        continue
                    chk.check("workplace", rule, inp, out, kw, "direct" if not rd else "direct, sorted again after the keys changed")


def run_case(case):
    res = Result(case)
    I.install()
    install_sort_wrappers()
    if case["kind"] == "direct":
        _current[0] = None
        direct_calls(case, res)
        res["nontrivial"] = res["counters"].get("C11.sort_calls_with_distinct_keys", 0) > 0
        res["source"] = "direct"
        return res
    spec = case["spec"]
    chk = SortChecker(Sink(res))
    _current[0] = chk
    rule = TR(spec["sim"]["rule"])
    if case["i"] % 8 == 1:
        # pause, in-place edits (a team's targets, a new worker, skills, ...), resume - one monitor over both calls
        import random as _random
        from . import edits as E
        from .runner import exc_info
        er = _random.Random(case["i"] * 17 + 3)
        I.set_order(I.default_order(spec))
        m = B.build(spec)
        started = M.StartedSnap()
        tr = I.Tracer([started, MonInversion(rule)])
        err = None
        try:
            with I.tracing(tr):
                B.run(m.project, spec, max_time=er.choice([1, 2, 3, 5]))
                if case.get("late_target") and not spec["teams"][case["late_target"][0]].get("ctor_targets"):
                    ti_, h_ = case["late_target"]
                    spec["teams"][ti_]["targets"].append(h_)
                    m.teams[ti_].append_targeted_task(m.tasks[h_])
                    res.count("C11.task_targeted_only_from_the_pause_on")
                spec, _what = E.edit(er, spec, m, n=er.randint(0, 2) or None, only=E.STRUCT + ("team_target_add",) * 6 + ("add_worker",) * 2 + ("skill", "skill_busy", "solo", "rule"))
                B.run(m.project, spec, initialize_state_info=False, initialize_log_info=False)
        except Exception as e:
            err = exc_info(e)
        finally:
            _current[0] = None
        res.count("C11.sim_runs_paused_edited_resumed")
    else:
        try:
            m, tr, err = forward(spec, lambda started: [MonInversion(rule)])
        finally:
            _current[0] = None
    res.absorb(tr, props=("C11",))
    if err is None and case["i"] % 4 == 1:
        # the same objects simulated again after in-place parameter edits, sorts and allocation still monitored
        import random as _random
        from . import edits as E
        from .runner import resimulate
        er = _random.Random(case["i"] * 31 + 7)
        spec2, _what = E.edit(er, spec, m, n=er.randint(1, 4))
        _current[0] = chk
        try:
            tr2, err = resimulate(m, spec2, lambda started: [MonInversion(rule)])
        finally:
            _current[0] = None
        res.absorb(tr2, props=("C11",))
        res.count("C11.sim_runs_after_model_edit")
    res["source"] = "sim"
    res.count("C11.sim_runs")
    res.count("C11.sim_rule.%s" % rule.name)
    if err is not None:
        res["aborted"] = err
    res["nontrivial"] = res["counters"].get("C11.contention_situations", 0) > 0
    return res
