"""Child process for C09(c): read specs from stdin, simulate each with native hashes, print dumps."""
import json
import sys


def main():
    specs = json.loads(sys.stdin.read())
    from vf.p_c09 import run_dump
    out = []
    for s in specs:
        m, d = run_dump(s, None, native=True)
        out.append(d)
    print(json.dumps(out))


if __name__ == "__main__":
    main()
