"""C08: every log has one entry per simulated step, equal to the live state, across histories."""
from . import gen as G
from . import monitors as M
from . import instr as I
from .history import Hist
from .runner import rng_for, Result, ns


def gen_ops(rng, n=None):
    ops = []
    for _ in range(n or rng.randint(1, 5)):
        r = rng.random()
        if r < 0.25:
            ops.append(["sim"])
        elif r < 0.45:
            ops.append(["pause", rng.choice([0, 1, 2, 3, 5, 8, 13])])
            ops.append(["resume"])
        elif r < 0.52:
            ops.append(["pause", rng.choice([0, 1, 2, 4, 7])])
        elif r < 0.62:
            ops.append(["sim_keeplog"])
        elif r < 0.82:
            ops.append(["backward", rng.random() < 0.5, rng.random() < 0.6])
        elif r < 0.90:
            ops.append(["reverse"])
        elif r < 0.94:
            ops.append(["reload"])     # write_simple_json + read_simple_json into the same project object
        elif r < 0.96:
            ops.append(["sim_keepstate"])   # simulate(initialize_state_info=False, initialize_log_info=True)
        elif r < 0.985:
            ops.append(["queries"])         # Gantt data and state queries of every object: read-only
        else:
            ops.append(["init"])
    return ops


def add_due_times(rng, spec):
    for t in spec["tasks"]:
        if rng.random() < 0.5:
            t["due"] = rng.choice([-1, 0, 3, 5, 5, 10, 20])


_rev = {"installed": False, "tr": None, "res": None}


def install_reverse_contract():
    """Postcondition on the real BaseProject.reverse_log_information (also when it is called from
    inside backward_simulate): every log is exactly the previous log read backwards."""
    if _rev["installed"]:
        return
    import functools
    from .build import all_logs
    orig = ns.BaseProject.reverse_log_information

    @functools.wraps(orig)
    def reverse_log_information(self, *a, **k):
        tr = _rev["tr"]
        if tr is None:
            return orig(self, *a, **k)
        before = {(x, y): list(l) for x, y, l in all_logs(self)}
        r = orig(self, *a, **k)
        for x, y, l in all_logs(self):
            tr.counters["C08.reverse_checks"] += 1
            if (x, y) in before and list(l) != before[(x, y)][::-1]:
                tr.violate("C08", "C08/reverse-is-not-the-reversed-log",
                           "reverse_log_information(): %s.%s is not the previous log read backwards" % (x, y))
                break
        return r

    ns.BaseProject.reverse_log_information = reverse_log_information
    _rev["installed"] = True


def make_case(prop, seed, i, tier):
    rng = rng_for(prop, seed, i)
    if rng.random() < 0.06:
        # beyond the usual sizes (run length, fan-in, team size, ...); pauses also far into a long run
        spec = G.gen_scale(rng)
        add_due_times(rng, spec)
        ops = gen_ops(rng, n=rng.randint(1, 3))
        if spec["scale"] == "long":
            for op in ops:
                if op[0] == "pause":
                    op[1] = rng.choice([op[1], 130, 260, 300, 420])
        return dict(prop=prop, i=i, spec=spec, ops=ops)
    spec = G.gen_random(rng, G.profile(facility_rich=rng.random() < 0.3, max_time=60, two_parents=0.3))
    if rng.random() < 0.1:
        G.add_idle_parts(rng, spec)
    add_due_times(rng, spec)
    return dict(prop=prop, i=i, spec=spec, ops=gen_ops(rng))


def run_case(case):
    res = Result(case)
    spec = case["spec"]
    tr = I.Tracer([M.MonC08()])
    h = Hist(spec, tracer=tr)
    kinds = set()
    install_reverse_contract()
    _rev["tr"] = tr
    for op in case["ops"]:
        try:
            err = h.do(op)
        finally:
            pass
        res.count("C08.ops")
        res.count("C08.op." + op[0])
        kinds.add(op[0])
        if err is not None:
            res["aborted"] = err
            break
        M.check_alignment(tr, h.p, context="after %s" % (op,))
        if op[0] == "init" and h.p.time != 0:
            tr.violate("C08", "C08/logs-misaligned", "after initialize(): time=%r" % h.p.time)
    _rev["tr"] = None
    res.absorb(tr, props=("C08",))
    res["nontrivial"] = len(kinds) >= 2
    res["source"] = "history"
    return res
