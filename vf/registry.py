"""Property registry: which module runs it, budgets, evidence texts, floors."""
import importlib

# prop -> (module, quick_n, thorough_n)
TABLE = {
    "C01": ("p_forward", 1400, 60000),
    "C02": ("p_forward", 1400, 60000),
    "C03": ("p_forward", 1400, 60000),
    "C04": ("p_forward", 1400, 60000),
    "C06": ("p_forward", 1400, 60000),
    "C07": ("p_forward", 1400, 60000),
    "C13": ("p_forward", 1400, 50000),
    "C14": ("p_forward", 1400, 60000),
    "C05": ("p_c05", 1600, 50000),
    "C11": ("p_c11", 1200, 40000),
    "C12": ("p_c12", 1500, 40000),
    "C08": ("p_c08", 900, 30000),
    "C09": ("p_c09", 320, 8000),
    "C10": ("p_c10", 1200, 40000),
    "C18": ("p_c18", 1200, 40000),
    "C15": ("p_c15", 300, 4000),
    "C16": ("p_c16", 800, 16000),
    "C17": ("p_c17", 720, 9000),
    "C19": ("p_c19", 600, 12000),
    "C20": ("p_c20", 700, 15000),
}

LEVEL = {}
RULE = {
    "C01": "cases: 144 systematic (dependency kind x pred/succ duration x shared/own worker x auto pred) pairs, then seeded random models (G-random incl. facility-rich), perturbed test fixtures and chain/diamond/fan shapes; distinct = canonical hash of spec+options; non-trivial = the run contains >= 1 SS/SF/FF edge whose predecessor and successor both changed state",
    "C02": "same workload as C01; non-trivial = >= 1 step with >= 2 workers on one task, or a worker-facility pair, or an absent allocated resource",
    "C03": "seeded random models (few workers, many ready tasks, facilities, solo flags, fixed-ID lists, absences), fixtures, shapes; non-trivial = >= 1 step where non-automatic READY/WORKING tasks exist and no worker is FREE (contention)",
    "C04": "seeded random models with skills drawn independently of team/workplace targeting and fixed-ID lists; non-trivial = >= 1 new allocation made while an ineligible (unskilled / untargeted / not-listed) worker was free",
    "C06": "as C01; non-trivial = >= 1 working step with a FREE worker and a waiting non-automatic task",
    "C07": "seeded random models with zero/fractional cost rates, project and individual absences, facilities; non-trivial = >= 2 different non-zero rates and >= 1 absence",
    "C13": "70% facility-rich random models (nested products, capacity contention, conveyor inputs), perturbed conveyor fixtures; non-trivial = >= 1 component move in a model with >= 2 components",
    "C14": "random models with components (no task / mixed default progress / tasks spread over dependency chains); non-trivial = some component had tasks in different states at a checked phase",
}
RULE["C05"] = "144 systematic dependency-kind x timing pairs (bound = total sequential work bound), G-feasible class 1 (FS/SS-only, every non-automatic unfinished task has an eligible worker; shared workers, solo flags, fixed lists, finite absences) and class 2 (all four kinds, a dedicated worker per task), chains/diamonds/fans with own workers, random models with one task made unservable (skill removed / team link removed / fixed list naming nobody), random models with tiny max_time; non-trivial = >= 1 SS/FF/SF edge or a worker shared by >= 2 tasks"
RULE["C11"] = "even cases: 40 direct calls each of sort_task/worker/facility/workplace_list on lists of 0-12 real objects with tied, missing, zero and negative keys and equal-but-not-identical ID strings, every rule x kind; odd cases: monitored simulations (random models, 45% facility-rich, contention) with a postcondition wrapper on every sort_* call made by simulate() and an inversion monitor at 'allocated' (keys snapshotted at 'updated'); non-trivial = a sort call with >= 2 distinct keys (direct) / an allocation pass where a free worker was eligible for >= 2 waiting tasks with different keys (sim)"
RULE["C12"] = "G-fs: FS-only DAGs of any shape (multiple heads/tails, zero work, default progress) run under worker contention so that tasks wait and the critical path grows with t (2 of 3 cases: every update_PERT_data call made by initialize() and by every step of simulate() is checked by a postcondition wrapper against an independent topological forward/backward pass); 1 of 3 cases: standalone histories of (reduce some remaining work, advance t, update); non-trivial = contains an update at t>0 after the critical path length changed"
RULE["C08"] = "random models x random histories of 1-5 operations drawn from simulate / simulate(max_time=k)+resume / simulate(initialize_log_info=False) / backward_simulate (both flags) / reverse_log_information / initialize; all logs of all objects are enumerated by reflection (attributes named *_record_list, *_id_record, cost_list); length and last-entry checks at every 'recorded' phase, alignment check after every operation; non-trivial = history with >= 2 different kinds of operation"
RULE["C09"] = "per model (random incl. facility-rich, double weight on FF/SF edges, chains/diamonds): reference run, then K runs under permuted ID-keyed hash assignments (quick 6, thorough 24; all n! for small n) = different set iteration orders, one run with native address hashes after allocating garbage, a second simulate() on the same object, simulate() after a random history (incl. absence edits) on the same object, and a fresh model simulated after a history on ANOTHER project (default-argument simulate, insert_absence_time_list); every 20th case runs 8 models in a fresh interpreter with a different PYTHONHASHSEED; all comparisons exact on the complete dump; mutable defaults / module globals of pDESy.model are snapshotted and compared around every case; non-trivial = model with an FF/SF edge or two tasks finishing in the same step"
RULE["C10"] = "even cases: random models (30% automatic tasks, individual absences) under project absence lists containing step 0, consecutive steps and steps beyond the end, both flag settings, with the in-step monitor (no progress / no allocation / ABSENCE logged / zero cost at project absence steps; automatic tasks progress iff the flag is set; individually absent resources contribute and cost nothing); odd cases: differential (exact, all logs) between simulate(absence=L)+remove_absence_time_list() and simulate() on the class (no individual absences, no component-bound automatic task, flag off or no automatic task) for absence-free runs that succeed; non-trivial = >= 1 project absence step while some task is WORKING"
RULE["C18"] = "random simulated models (40% facility-rich, half with a project absence list, 15% containing a BaseSubProjectTask) followed by 1-4 remove/insert edits with index lists drawn from {interior, step 0, last, beyond the end, duplicates of present steps, empty, unsorted, mixed}; every third case is insert-then-remove on an absence-free result compared with the logs before; after each edit every log (reflection) must have changed by the same amount and equal project.time, inserted steps must be zero-cost / no-work; non-trivial = an interior index edited on a run with >= 1 placement"
RULE["C15"] = "random models (35% facility-rich) and perturbed fixtures; reference = uninterrupted run under a fixed hash assignment; for pause points k (quick: 0, 1, T-1, T and 3 random; thorough: EVERY k in [0, T]) a fresh model is simulated to max_time=k and resumed with both initialisations off, in memory and through write_simple_json -> new project -> read_simple_json; complete dumps (logs, costs, time, status, final live state) compared exactly; the JSON variant is only demanded when every constructor parameter of every object (runtime reflection) equals the original after the load; non-trivial = a pause strictly inside the run while a task is WORKING"
RULE["C16"] = "3 of 4 cases: random models (40% facility-rich, 20% with a BaseSubProjectTask, edge values 0/-1 in due times) brought to one of 8 stages (never simulated, initialized, paused at k, finished forward, finished backward with/without log reversal, after insert_absence_time_list, after remove_absence_time_list), then write -> read into a new project -> write again: JSON files compared value-for-value, every cross reference checked for identity membership in the restored project (explicit list + generic sweep over all attributes), re-simulation of original and restored project compared exactly when no constructor parameter was lost; 1 of 4 cases: parameter coverage by execution - one constructor parameter (runtime reflection over 7 classes) is perturbed on up to 14 generated models: if any dump changes it is observed simulation-relevant and must then survive save/load; non-trivial = stage other than never-simulated with a live allocation or placement (stage cases), parameter observed relevant (param cases)"
RULE["C17"] = "random models and perturbed fixtures with random due times (incl. -1 and ties), both settings of considering_due_time_of_tail_tasks and reverse_log_information; per model: forward reference run, identity snapshot of every input/output list of tasks and workplaces, one un-faulted backward run (structure, helper tasks, log alignment, FS order in the time-reversed logs, forward re-run compared exactly); 2 of 3 cases stop there (dependency-order workload with own workers and many FS links mixed with SS/FF/SF); 1 of 3 cases continue with one backward run per injection point in which the step observer raises at exactly that (step, phase) of the inner run - quick: 8 sampled points + first + last, thorough: EVERY (step, phase) notified by the reference run; after each aborted run structure and forward result are re-checked; non-trivial = the injected exception was really raised and propagated out of backward_simulate"
RULE["C19"] = "first cases: EXHAUSTIVE enumeration of all state sequences of length 0..6 (quick) / 0..8 (thorough) for task and component logs (4 states) and worker and facility logs (3 states) x margins {0, 0.5, 1, 2}, each compared with a reference run-length encoder; then random long sequences (<= 60, long runs and frequent changes) incl. the plotly chart rows (index k -> init_datetime + k * unit_timedelta, with view_ready / view_absence), random extract_*_list queries on workflows, products, teams and workplaces (time lists with duplicates, empty, beyond the end), set_last_datetime with several units, and the logs of real simulations; non-trivial = sequence length >= 3 (exhaustive chunks) / every random, query and real-log case"
RULE["C20"] = "end to end with the real code: a generated feasible sub-project (durations 1-30, half with an absence list inside the run, some with steps beyond the end) is simulated, saved, a BaseSubProjectTask is configured from the file (with / without absence steps), its unit is related to the parent's (7 unit lengths, integer and non-integer ratios), the task is placed at a random position (head, middle, tail; FS/SS/FF/SF links) of a generated parent workflow which is simulated under the C01/C06 monitors; checked: work amount = duration, unit, number of WORKING steps = ceil(duration x sub unit / parent unit), consecutive working steps, no worker; every 5th case: configuring from an unsimulated or failed project must warn and leave every attribute of the task unchanged; non-trivial = unit ratio != 1 or absence steps inside the sub-project run (duration cases), every refusal case"
_FORWARD_HISTORIES = ("; a share of the models (and half of the fixture models) goes through a short history instead of one plain run: "
                      "simulate() twice, pause + resume (half of them with in-place parameter edits in between: skills of busy resources, "
                      "rates, absence lists, rules, flags), a log-keeping second run, in-place model edits (incl. new dependencies) + re-run, "
                      "absence edits of the logs, pause + JSON save/load + resume of the RESTORED project (monitor memory carried over by ID), "
                      "backward_simulate() first and then the monitored forward run on the same objects; 6 % of the random models contain idle parts "
                      "(team without workers, workplace without facilities, component without tasks)")
for _p in ("C01", "C02", "C03", "C04", "C06", "C07", "C13", "C14"):
    RULE[_p] = RULE[_p] + _FORWARD_HISTORIES
RULE["C07"] += "; 12 % of the random C07 models contain a worker on loan (listed by one team, team_id naming another)"
RULE["C09"] += "; every model is also simulated (forward, or backward in every 4th case), edited in place (1-4 parameter edits incl. skills of busy resources and new dependencies) and simulated again: the result must equal that of a fresh model built with the edited values"
RULE["C10"] += "; in 35 % of the equivalence cases the run with absence is paused and resumed with the same list (a third of them through a JSON file) before remove_absence_time_list"
RULE["C16"] += "; every stage case also reads the same file a second time after the first restored project was changed (must restore the same project again) and writes the same objects a second time after an absence insertion / log reversal / absence removal (the restored logs must equal the live ones)"
RULE["C18"] += "; 30 % of the models contain idle parts (team without workers, workplace without facilities, component without tasks)"
RULE["C20"] += "; every second case re-uses one result path per worker process (files rewritten in place, also with refused projects)"
RULE["C05"] += "; every third case uses the project again after the verdict: a plain second run, write_simple_json + read_simple_json into the SAME BaseProject object and a run, or continuing the finished project (same verdicts demanded of the later call)"
RULE["C11"] += "; in half of the direct batches the same objects are sorted again (1-2 more rounds) after their keys changed: skills edited in place or replaced, rates, main workplace IDs, est/lst/work amounts, task logs appended / replaced / edited in the middle / reversed, placed components added and removed; every 4th simulated model is edited in place and simulated again under the same wrappers"
RULE["C12"] += "; in 35 % of the standalone updates the network itself changes between two updates (new FS link, new task before/behind an existing one, work amount set) and every 4th simulated model is edited (work amounts, new FS links) and simulated again"
RULE["C17"] += "; every second case takes the forward reference from ANOTHER fresh model, so that backward_simulate() is the very first run of the objects; 20 % of the conveyor links are given to the BaseWorkplace constructor (one-sided)"
RULE["C19"] += "; after each encoder check the same object is asked again 0-3 times after its log changed IN PLACE (entries overwritten, appended, inserted, deleted, reversed, cleared) or with another margin; the state queries are asked again 0-2 times after in-place log changes, a new member and other times"
RULE["C11"] += "; every 8th case is a partial-operators model (facility tasks whose workplace has several skilled facilities of which each worker can operate only some, next to plain tasks); the inversion clause also covers higher-priority facility tasks"
RULE["C19"] += "; 15 % of the encoder logs hold equal-but-not-identical members (plain ints, sibling enum)"
RULE["C05"] += "; every 10th case is a feasible-specialist model (class 1: one specialist who can do everything and is individually absent now and then, helpers for some tasks, tasks only the specialist can do)"
RULE["C10"] += "; every 8th case runs the in-step monitor over a BACKWARD run (both flags, due-time padding tasks), judged by the flag the caller passed"
RULE["C12"] += "; the values are also checked at every observer phase 'updated' (whether or not update_PERT_data was called in that update); every 12th case pauses an FS network with an absence list, removes / inserts absence steps in the paused logs (the clock moves) and resumes"
RULE["C20"] += "; half of the tasks are constructed with file_path, and every 4th case sends the configured parent project through write_simple_json / read_simple_json (result file still present) before it runs"
for _p in ("C01", "C02", "C03", "C04", "C06", "C07", "C13", "C14"):
    RULE[_p] += ("; further variants: history (2-4 operations of different kinds - runs, backward runs, pauses, resumes, appended runs, reloads, "
                 "model edits, absence edits - then the monitored run), model edits before the appended run of keeplog, reload into the SAME project object "
                 "in 40 % of the JSON resumes; in-place edits include structural ones (new worker, team targets added / removed, conveyor inputs re-assigned, "
                 "new dependencies, a first task for an empty component)")
RULE["C05"] += "; every 20th case lets the only eligible worker join his team at a pause (feasible from then on)"
RULE["C11"] += "; every 8th case is paused, edited in place (incl. a task that a team targets only from the pause on) and resumed under one monitor"
RULE["C16"] += "; stage 'history' = any 2-4 operations before the file is written"
RULE["C17"] += "; every 6th case has an earlier backward run followed by a reload into the same object or by replaced list objects before the examined run"
RULE["C18"] += "; 12 % of the logs come from two calls with different absence lists (pause + resume, run + appended run), 15 % of the projects were read from a file before the edits"
RULE["C20"] += "; every third case configured the SAME task before from an earlier result that stood at the same path"
for _p in ("C01", "C02", "C03", "C04", "C06", "C07", "C13", "C14"):
    RULE[_p] += "; the JSON-resume variant also duplicates the paused project with copy.deepcopy / a pickle round trip (35 %) and resumes the copy"
RULE["C08"] += "; operations also: simulate(initialize_state_info=False, initialize_log_info=True), reload into the same object, read-only 'queries' (Gantt data and state queries of every object)"
RULE["C09"] += "; a deepcopy and a pickle round trip of every freshly built project are simulated while the template is alive and compared with the reference"
RULE["C15"] += "; for every second pause point the paused project is duplicated (deepcopy / pickle) and the copy is resumed"
RULE["C16"] += "; 8 % of the stage cases start inside the hour a daylight-saving switch skips / repeats and run under TZ=CET-1CEST"
RULE["C17"] += "; a third of the injected faults derive from BaseException, not from Exception"
RULE["C18"] += "; every fifth case runs its edits with warnings turned into errors"
RULE["C19"] += "; a fifth of the cases run under a time zone with daylight saving (TZ=CET-1CEST,M3.5.0,M10.5.0/3), 30 % of the chart starts lie around a switch"
_SCALE = ("; 5-8 % of the cases are models BEYOND the usual sizes (gen_scale: runs of 100-1500 steps with absence blocks of up to 140 consecutive steps, "
          "fan-in of up to 299, 33-70 tasks on one component, finish-gated chains of 11-40 tasks, teams of 100 workers, 10-14 teams with numeric IDs, "
          "17-26 components in one workplace)")
for _p in ("C01", "C02", "C03", "C04", "C05", "C06", "C07", "C08", "C09", "C10", "C11", "C12", "C13", "C14", "C15", "C16", "C17", "C18", "C19"):
    RULE[_p] += _SCALE
RULE["C12"] += "; standalone networks also with work amounts x 1000-3000 (schedules beyond 10000 time units) and FS chains of 300-1500 tasks"
RULE["C16"] += "; every 40th case writes and reads a never-simulated FS chain of 1000-1200 tasks"
RULE["C18"] += "; on logs longer than 100 steps half of the index lists hold 65-130 steps"
RULE["C19"] += "; 8 % of the encoder logs have 255-1500 records"
RULE["C19"] += "; 30 % of the set_last_datetime checks use a date WITH a tzinfo that has daylight-saving time (hand-written rule zone), every date check also demands that the chart row of a task WORKING at the last step only starts on the given date"

for _p in ("C01", "C02", "C03", "C04", "C06", "C07", "C13", "C14", "C12"):
    RULE[_p] += "; 6 % (C12: 8 %) of the cases with numbers off every decimal grid (work x 1/3, 2/3, 1/7, pi/4, 10/7; skills x 1/3, 2/3, 7/9; rates x 1/3, 1/7; component sizes = capacity/k + delta, delta < 0.001)"
RULE["C16"] += "; 12 % of the cases (stage other than never) save a state in which the calculated times of one task are edge values (lst = lft = -1.0, all four -1.0, 0.0, ints)"
RULE["C15"] += "; thorough: pause points of long / large models bounded in logical work units (first half, last two, rest sampled)"
RULE["C17"] += "; thorough: injected runs of large models bounded in logical work units"
RULE["C20"] += "; every 12th case uses a sub-project that runs for 257 and more steps"
RULE["C01"] += "; every declared dependency is checked to be present in the built model (both lists)"
RULE["C06"] += "; pair clause also for a single-task flat component that lies nowhere although a workplace of its task had room throughout the pass"
RULE["C16"] += "; 12 % of the stage cases use names outside ASCII and one of the encodings utf-8 / ascii / latin-1 / cp932 / utf-16 / shift_jis for write and read"
for _p in RULE:
    RULE[_p] += " [generator-wide: 12 % of the gen_random models carry a boundary value: two links of different kinds between the same tasks, a unit rate on a worker-performed task, component sizes / workplace capacities of 0 and exact fits, the absence argument as tuple / set / range, the rule as a plain int;"
for _p in RULE:
    RULE[_p] += " 2.5 % of the gen_random models are LARGE (12-36 tasks, up to 72 workers, 72 facilities, 12 components, work up to 1500, absence steps out to step 300, max_time x 8); 4 % of the random models with workplaces share an ID string across classes (team/workplace, worker/facility); individual and project absence lists unsorted in 25 % and with a repeated entry in 5 % of the draws; 6 % of the random models repeat a task name]"
# minimal number of non-trivial cases / monitor evaluations for a conclusive run: (counter, quick, thorough)
FLOORS = {
    "C01": [("C01.transitions", 2000, 50000), ("C01.nonFS_active", 100, 3000)],
    "C02": [("C02.balances", 20000, 500000), ("C02.multi_worker_balances", 100, 3000), ("resume_with_parameter_edits", 25, 600), ("json_resumed_runs", 15, 400)],
    "C03": [("C03.resource_checks", 20000, 500000), ("C03.contention_steps", 200, 5000), ("json_resumed_runs", 15, 400), ("simulate_after_backward_runs", 15, 400)],
    "C04": [("C04.new_worker_allocations", 1000, 30000), ("C04.alloc_with_ineligible_free_candidate", 100, 3000)],
    "C05": [("C05.feasible_runs", 600, 20000), ("C05.unservable_runs", 100, 3000), ("C05.status_checks", 1000, 30000), ("C05.later_calls.reload", 80, 2500)],
    "C11": [("C11.sort_calls", 20000, 500000), ("C11.sort_calls_with_distinct_keys", 5000, 100000), ("C11.contention_situations", 50, 1500), ("C11.contention_pairs", 50, 1500), ("C11.resort_after_change_batches", 2000, 50000)],
    "C12": [("C12.updates", 10000, 300000), ("C12.updates_after_cpl_change", 500, 15000), ("C12.structure_edits.newtask", 100, 3000), ("C12.updated_phase_checks", 5000, 150000)],
    "C08": [("C08.length_checks", 100000, 3000000), ("C08.entry_checks", 50000, 1500000), ("C08.ops", 1500, 50000)],
    "C09": [("C09.comparisons", 2000, 100000), ("C09.distinct_set_orders", 800, 40000), ("C09.fresh_process_runs", 60, 1500), ("C09.edit_and_resimulate_runs", 100, 3000), ("C09.copy_runs", 200, 6000)],
    "C10": [("C10.absence_task_checks", 5000, 150000), ("C10.equivalence_comparisons", 300, 10000), ("C10.individual_absence_checks", 50, 1500), ("C10.equivalence_paused_and_resumed", 40, 1000), ("C10.backward_runs", 50, 1500)],
    "C18": [("C18.edits", 1500, 50000), ("C18.log_delta_checks", 50000, 1500000), ("C18.roundtrip_comparisons", 150, 5000)],
    "C15": [("C15.memory_resumes", 1000, 60000), ("C15.json_resumes", 200, 10000), ("C15.pauses_inside_run_with_working_task", 200, 20000)],
    "C16": [("C16.roundtrip_comparisons", 300, 8000), ("C16.reference_checks", 10000, 300000), ("C16.resimulations", 50, 1500), ("C16.param_observed_relevant", 15, 400), ("C16.second_reads_of_same_file", 200, 6000), ("C16.second_writes", 200, 6000)],
    "C17": [("C17.faults_raised_and_propagated", 1000, 100000), ("C17.structure_checks", 1000, 100000), ("C17.forward_comparisons", 1000, 100000), ("C17.fs_order_checks", 150, 3000), ("C17.backward_is_first_run", 150, 3000), ("C17.faults_that_are_not_Exceptions", 100, 10000)],
    "C19": [("C19.encoder_checks", 30000, 1000000), ("C19.query_checks", 3000, 80000), ("C19.row_checks", 1000, 30000), ("C19.date_checks", 1000, 30000), ("C19.exhaustive_chunks", 28, 36), ("C19.encoder_checks_after_in_place_change", 3000, 80000), ("C19.query_rounds_after_in_place_change", 300, 8000), ("C19.date_checks.time_zone_with_dst", 200, 5000)],
    "C20": [("C20.parent_runs", 200, 5000), ("C20.configurations", 300, 8000), ("C20.refusal_checks", 60, 1500), ("C20.result_path_used_again", 100, 3000), ("C20.parents_through_json", 40, 1000)],
    "C06": [("C06.pairs_examined", 1000, 30000), ("C06.none_checks", 1000, 30000)],
    "C07": [("C07.resource_step_checks", 20000, 500000), ("json_resumed_runs", 15, 400), ("resimulated_runs", 40, 1000)],
    "C13": [("C13.moves", 300, 10000), ("C13.site_checks", 300, 10000), ("json_resumed_runs", 30, 800), ("simulate_after_backward_runs", 30, 800)],
    "C14": [("C14.relation_checks", 10000, 300000), ("C14.mixed_state_checks", 300, 10000)],
}


def module(prop):
    return importlib.import_module("vf." + TABLE[prop][0])


def budget(prop, tier):
    return TABLE[prop][1] if tier == "quick" else TABLE[prop][2]
