"""Property registry: which module runs it, budgets, evidence texts, floors."""
import importlib

# prop -> (module, quick_n, thorough_n)
TABLE = {
    "C01": ("p_forward", 1400, 60000),
    "C02": ("p_forward", 1400, 60000),
    "C03": ("p_forward", 1400, 60000),
    "C04": ("p_forward", 1400, 60000),
    "C06": ("p_forward", 1400, 60000),
    "C07": ("p_forward", 1400, 60000),
    "C13": ("p_forward", 1400, 50000),
    "C14": ("p_forward", 1400, 60000),
    "C05": ("p_c05", 1600, 50000),
    "C11": ("p_c11", 1200, 40000),
}

LEVEL = {}
RULE = {
    "C01": "cases: 144 systematic (dependency kind x pred/succ duration x shared/own worker x auto pred) pairs, then seeded random models (G-random incl. facility-rich), perturbed test fixtures and chain/diamond/fan shapes; distinct = canonical hash of spec+options; non-trivial = the run contains >= 1 SS/SF/FF edge whose predecessor and successor both changed state",
    "C02": "same workload as C01; non-trivial = >= 1 step with >= 2 workers on one task, or a worker-facility pair, or an absent allocated resource",
    "C03": "seeded random models (few workers, many ready tasks, facilities, solo flags, fixed-ID lists, absences), fixtures, shapes; non-trivial = >= 1 step where non-automatic READY/WORKING tasks exist and no worker is FREE (contention)",
    "C04": "seeded random models with skills drawn independently of team/workplace targeting and fixed-ID lists; non-trivial = >= 1 new allocation made while an ineligible (unskilled / untargeted / not-listed) worker was free",
    "C06": "as C01; non-trivial = >= 1 working step with a FREE worker and a waiting non-automatic task",
    "C07": "seeded random models with zero/fractional cost rates, project and individual absences, facilities; non-trivial = >= 2 different non-zero rates and >= 1 absence",
    "C13": "70% facility-rich random models (nested products, capacity contention, conveyor inputs), perturbed conveyor fixtures; non-trivial = >= 1 component move in a model with >= 2 components",
    "C14": "random models with components (no task / mixed default progress / tasks spread over dependency chains); non-trivial = some component had tasks in different states at a checked phase",
}
RULE["C05"] = "144 systematic dependency-kind x timing pairs (bound = total sequential work bound), G-feasible class 1 (FS/SS-only, every non-automatic unfinished task has an eligible worker; shared workers, solo flags, fixed lists, finite absences) and class 2 (all four kinds, a dedicated worker per task), chains/diamonds/fans with own workers, random models with one task made unservable (skill removed / team link removed / fixed list naming nobody), random models with tiny max_time; non-trivial = >= 1 SS/FF/SF edge or a worker shared by >= 2 tasks"
RULE["C11"] = "even cases: 40 direct calls each of sort_task/worker/facility/workplace_list on lists of 0-12 real objects with tied, missing, zero and negative keys and equal-but-not-identical ID strings, every rule x kind; odd cases: monitored simulations (random models, 45% facility-rich, contention) with a postcondition wrapper on every sort_* call made by simulate() and an inversion monitor at 'allocated' (keys snapshotted at 'updated'); non-trivial = a sort call with >= 2 distinct keys (direct) / an allocation pass where a free worker was eligible for >= 2 waiting tasks with different keys (sim)"
# minimal number of non-trivial cases / monitor evaluations for a conclusive run: (counter, quick, thorough)
FLOORS = {
    "C01": [("C01.transitions", 2000, 50000), ("C01.nonFS_active", 100, 3000)],
    "C02": [("C02.balances", 20000, 500000), ("C02.multi_worker_balances", 100, 3000)],
    "C03": [("C03.resource_checks", 20000, 500000), ("C03.contention_steps", 200, 5000)],
    "C04": [("C04.new_worker_allocations", 1000, 30000), ("C04.alloc_with_ineligible_free_candidate", 100, 3000)],
    "C05": [("C05.feasible_runs", 600, 20000), ("C05.unservable_runs", 100, 3000), ("C05.status_checks", 1000, 30000)],
    "C11": [("C11.sort_calls", 20000, 500000), ("C11.sort_calls_with_distinct_keys", 5000, 100000), ("C11.contention_situations", 50, 1500), ("C11.contention_pairs", 50, 1500)],
    "C06": [("C06.pairs_examined", 1000, 30000), ("C06.none_checks", 1000, 30000)],
    "C07": [("C07.resource_step_checks", 20000, 500000)],
    "C13": [("C13.moves", 300, 10000), ("C13.site_checks", 300, 10000)],
    "C14": [("C14.relation_checks", 10000, 300000), ("C14.mixed_state_checks", 300, 10000)],
}


def module(prop):
    return importlib.import_module("vf." + TABLE[prop][0])


def budget(prop, tier):
    return TABLE[prop][1] if tier == "quick" else TABLE[prop][2]
