"""C20: a sub-project task lasts exactly as long as the sub-project it stands for."""
import copy
import datetime
import math
import os
import warnings

from . import gen as G
from . import monitors as M
from . import build as B
from . import instr as I
from .history import scratch_file
from .runner import rng_for, Result, ns, exc_info

TS = ns.BaseTaskState
P = ns.BaseProjectStatus
UNITS = [60, 120, 180, 600, 3600, 5400, 86400]   # seconds


def make_case(prop, seed, i, tier):
    rng = rng_for(prop, seed, i)
    sub = G.gen_feasible(rng, cls=1)
    if rng.random() < 0.5:
        sub["sim"]["absence"] = sorted(rng.sample(range(0, 10), rng.randint(1, 3))) + ([rng.choice([70, 99])] if rng.random() < 0.2 else [])
        sub["sim"]["max_time"] = G.feasible_bound(sub)
    else:
        sub["sim"]["absence"] = []
    parent = G.gen_random(rng, G.profile(facilities=False, comps=rng.random() < 0.4, nested=False, max_tasks=6, min_tasks=2,
                                         ensure_worker=1.0, max_time=400, proj_absence=False))
    pos = rng.randrange(len(parent["tasks"]))
    t = parent["tasks"][pos]
    t["auto"], t["need_facility"], t["component"], t["progress"] = True, False, None, 0.0
    t["fixed_workers"] = None
    if rng.random() < 0.35:
        parent["sim"]["absence"] = sorted(rng.sample(range(0, 12), rng.randint(1, 3)))
    parent["sim"]["auto_flag"] = False
    kind = "refusal" if i % 5 == 4 else "duration"
    sub_unit, parent_unit = rng.choice(UNITS), rng.choice(UNITS)
    if i % 12 == 5:
        # a sub-project that runs for hundreds of steps (257 and more)
        f = rng.choice([30.0, 60.0])
        for t_ in sub["tasks"]:
            t_["work"] = t_["work"] * f
        if sub["sim"]["absence"]:
            sub["sim"]["absence"] = sorted(set(sub["sim"]["absence"]) | set(rng.sample(range(20, 250), 6)))
        sub["sim"]["max_time"] = G.feasible_bound(sub)
        sub_unit = rng.choice([60, 120])
        parent_unit = rng.choice([x for x in UNITS if x >= sub_unit and x <= 600])
        parent["sim"]["max_time"] = 3000
    return dict(prop=prop, i=i, kind=kind, sub=sub, parent=parent, pos=pos, sub_unit=sub_unit, parent_unit=parent_unit,
                remove_absence=rng.random() < 0.5, refusal=rng.choice(["unsimulated", "failed"]))


def attrs(o):
    out = {}
    for k, v in vars(o).items():
        out[k] = repr(v) if not isinstance(v, list) else repr([getattr(x, "ID", x) for x in v])
    return out


def run_case(case):
    res = Result(case)
    res["source"] = case["kind"]
    sub, parent = case["sub"], case["parent"]
    I.install()
    I.set_order(I.default_order(sub))
    sm = B.build(sub)
    sm.project.unit_timedelta = datetime.timedelta(seconds=case["sub_unit"])
    if case["i"] % 2 == 0:
        # result files are commonly rewritten in place: every second case of a worker process uses the
        # same path again (with another sub-project's result, or a refused one, behind it)
        from .history import SCRATCH
        os.makedirs(SCRATCH, exist_ok=True)
        path = os.path.join(SCRATCH, "vf_sub_rewritten_%d.json" % os.getpid())
        res.count("C20.result_path_used_again")
    else:
        path = scratch_file("sub")
    try:
        if case["kind"] == "refusal":
            if case["refusal"] == "failed":
                s2 = copy.deepcopy(sub)
                s2["sim"]["max_time"] = 1
                try:
                    B.run(sm.project, s2)
                except Exception as e:
                    res["aborted"] = exc_info(e)
                    return res
                if sm.project.status == P.FINISHED_SUCCESS:
                    res.count("C20.refusal_skipped_project_succeeded")
                    return res
            sm.project.write_simple_json(path)
            st = ns.BaseSubProjectTask("sub", default_work_amount=3.5)
            before = attrs(st)
            with warnings.catch_warnings(record=True) as wlist:
                warnings.simplefilter("always")
                try:
                    st.set_all_attributes_from_json(path, remove_absence_time_list=case["remove_absence"])
                except Exception as e:
                    ei = exc_info(e)
                    res.violate("C20", "C20/refusal-raises:%s" % ei["type"], "configuring from a %s project raised %s: %s" % (case["refusal"], ei["type"], ei["msg"]))
                    return res
            res.count("C20.refusal_checks")
            res.count("C20.refusal." + case["refusal"])
            if not wlist:
                res.violate("C20", "C20/refusal-without-warning", "configuring from a %s project (status %s) issued no warning" % (case["refusal"], sm.project.status.name))
            after = attrs(st)
            if after != before:
                ch = sorted(k for k in set(before) | set(after) if before.get(k) != after.get(k))
                res.violate("C20", "C20/refusal-changed-task:%s" % ",".join(x.replace("_vf_", "") for x in ch),
                            "configuring from a %s project changed the task's attributes %s" % (case["refusal"], ch))
            res["nontrivial"] = True
            return res
        # ---- duration
        rerun_plain = bool(sub["sim"]["absence"]) and case["i"] % 3 == 0
        try:
            B.run(sm.project, sub)
            if rerun_plain:
                # history of the sub-project: simulated with absence steps, then simulated again without
                # passing an absence list (library defaults), then saved
                with warnings.catch_warnings():
                    warnings.simplefilter("ignore")
                    sm.project.simulate(task_priority_rule=ns.TaskPriorityRuleMode(sub["sim"]["rule"]), max_time=sub["sim"]["max_time"])
                res.count("C20.sub_rerun_without_absence")
        except Exception as e:
            res["aborted"] = exc_info(e)
            return res
        if sm.project.status != P.FINISHED_SUCCESS:
            res.count("C20.sub_project_failed")
            return res
        T = sm.project.time
        absn = [] if rerun_plain else sorted(set(a for a in sub["sim"]["absence"] if a < T))
        sm.project.write_simple_json(path)
        rm = case["remove_absence"]
        exp_duration = T - len(absn) if rm else T
        I.set_order(I.default_order(parent))
        # half of the tasks are constructed with the path of their result file
        ctor_kw = {"file_path": path} if case["i"] % 4 in (1, 2) else {}
        pm = B.build(parent, task_overrides={case["pos"]: (ns.BaseSubProjectTask, ctor_kw)})
        pm.project.unit_timedelta = datetime.timedelta(seconds=case["parent_unit"])
        st = pm.tasks[case["pos"]]
        if case["i"] % 2 == 1:
            # another task was configured from the same file before, with the other setting
            pre = ns.BaseSubProjectTask("pre")
            with warnings.catch_warnings():
                warnings.simplefilter("ignore")
                pre.set_all_attributes_from_json(path, remove_absence_time_list=not rm)
            res.count("C20.same_file_configured_twice")
        if case["i"] % 3 == 2:
            # the SAME task was configured before from an earlier result that stood at the same path
            # (the sub-project with doubled work amounts), then the file was rewritten with the present result
            I.set_order(I.default_order(sub))
            s0 = copy.deepcopy(sub)
            for t_ in s0["tasks"]:
                t_["work"] = t_["work"] * 2 + 1
            s0["sim"]["max_time"] = G.feasible_bound(s0)
            sm0 = B.build(s0)
            sm0.project.unit_timedelta = datetime.timedelta(seconds=case["sub_unit"] * 2)
            try:
                B.run(sm0.project, s0)
                if sm0.project.status == P.FINISHED_SUCCESS:
                    sm0.project.write_simple_json(path)
                    with warnings.catch_warnings():
                        warnings.simplefilter("ignore")
                        st.set_all_attributes_from_json(path, remove_absence_time_list=rm)
                    res.count("C20.same_task_configured_before_from_earlier_result")
            except Exception:
                pass
            sm.project.write_simple_json(path)
            I.set_order(I.default_order(parent))
        with warnings.catch_warnings(record=True) as wlist:
            warnings.simplefilter("always")
            st.set_all_attributes_from_json(path, remove_absence_time_list=rm)
        res.count("C20.configurations")
        if wlist and any("not simulated" in str(w.message) for w in wlist):
            res.violate("C20", "C20/successful-project-refused", "a successfully simulated sub-project was refused")
            return res
        if st.default_work_amount != exp_duration:
            res.violate("C20", "C20/work-amount-differs-from-duration",
                        "sub-project ran %d steps with absence steps %s (remove=%s): default_work_amount %r, expected %r" % (T, absn, rm, st.default_work_amount, exp_duration))
        if st.unit_timedelta != datetime.timedelta(seconds=case["sub_unit"]):
            res.violate("C20", "C20/unit-differs", "unit_timedelta %r, sub-project unit %r s" % (st.unit_timedelta, case["sub_unit"]))
        st.set_work_amount_progress_of_unit_step_time(pm.project.unit_timedelta)
        if case["i"] % 4 == 1:
            # the configured parent project goes through a JSON file (the result file still exists) before it runs
            from .history import Hist
            hp = Hist(parent, order=False, model=pm)
            e = hp.do(["saveload"])
            if e is not None:
                res.violate("C20", "C20/parent-save-load-raises:%s:%s" % (e["type"], e["where"]), "write/read of the configured parent raised %s: %s" % (e["type"], e["msg"]))
                return res
            q = hp.p
            st2 = [t for t in q.workflow.task_list if t.ID == st.ID][0]
            res.count("C20.parents_through_json")
            for nm in ("default_work_amount", "unit_timedelta", "work_amount_progress_of_unit_step_time"):
                if getattr(st2, nm, None) != getattr(st, nm, None):
                    res.violate("C20", "C20/configuration-changed-by-parent-save-load:%s" % nm,
                                "after write/read of the parent project the sub-project task's %s is %r, it was configured to %r" % (nm, getattr(st2, nm, None), getattr(st, nm, None)))
                    return res

            class _PM(object):
                project = q
                tasks = None
            pm = _PM()
            st = st2
        ratio = case["sub_unit"] / float(case["parent_unit"])
        # a task of zero work amount still passes through one WORKING step (state machine of C02)
        exp_steps = max(1, int(math.ceil(exp_duration * ratio - 1e-9)))
        started = M.StartedSnap()
        tr = I.Tracer([started, M.MonC01(started), M.MonC06(started)])
        perr = None
        try:
            with I.tracing(tr):
                B.run(pm.project, parent)
        except Exception as e:
            perr = exc_info(e)
        if perr is not None:
            res["aborted"] = perr
            return res
        tr.end(pm.project)
        for v in tr.violations:
            v = dict(v)
            v["mechanism"] = "C20/parent-run:" + v["mechanism"]
            v["property"] = "C20"
            if st.ID in str(v.get("witness")):
                res["violations"].append(v)
        if pm.project.status != P.FINISHED_SUCCESS:
            res.count("C20.parent_failed")
            return res
        res.count("C20.parent_runs")
        log = st.state_record_list
        pabs = set(parent["sim"]["absence"])
        work_steps = [k for k in range(len(log)) if k not in pabs]
        wk = [k for k in range(len(log)) if log[k] == TS.WORKING]
        finish_gated = any(d in (M.DEP.FF, M.DEP.SF) for _, d in st.input_task_list)
        if finish_gated:
            # a finish-to-finish / start-to-finish predecessor may legitimately keep the task WORKING
            # after its work is done: only "at least" is demanded there
            res.count("C20.finish_gated_positions")
            if len(wk) < exp_steps:
                res.violate("C20", "C20/occupied-steps", "finish-gated sub-project task WORKING at %d steps, expected at least %d" % (len(wk), exp_steps))
        elif len(wk) != exp_steps:
            res.violate("C20", "C20/occupied-steps",
                        "duration %r x unit %ds / parent unit %ds: logged WORKING at %d steps %s, expected %d" % (
                            exp_duration, case["sub_unit"], case["parent_unit"], len(wk), wk[:12], exp_steps))
        elif wk:
            idx = [work_steps.index(k) for k in wk if k in work_steps]
            if len(idx) != len(wk) or idx != list(range(idx[0], idx[0] + len(idx))):
                res.violate("C20", "C20/not-consecutive", "WORKING steps %s are not consecutive working steps (absence %s)" % (wk, sorted(pabs)))
        if any(r for r in st.allocated_worker_id_record):
            res.violate("C20", "C20/worker-allocated", "a worker was allocated to the sub-project task")
        res.count("C20.ratio.%s" % ("integer" if abs(ratio - round(ratio)) < 1e-12 or abs(1 / ratio - round(1 / ratio)) < 1e-12 else "non-integer"))
        res["nontrivial"] = bool(abs(ratio - 1.0) > 1e-12 or absn)
        return res
    finally:
        if os.path.exists(path):
            os.remove(path)
