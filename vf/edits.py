"""Model edits between two runs: the same change is applied to the spec (so that a fresh model can
be built from it) and, in place, to the live objects of an already simulated model - the way a user
changes a parameter and simulates again."""
import copy

from .common import load

ns = load()


STRUCT = ("add_worker", "team_target_add", "team_target_remove", "wp_inputs_set")
MID_RUN = STRUCT + ("skill_busy", "fskill_busy", "skill", "cost", "absence_assign", "absence_append", "rule", "solo", "fixed", "rate", "fskill", "fcost")


def edit(rng, spec, model, n=None, only=None, extra=(), skip=()):
    """Returns (edited spec, list of human-readable edits). `model` (vf.build.Model) is edited in place.
    only: restrict the kinds of edit (MID_RUN: those that make sense between a pause and its resume -
    defaults that are only read by initialize() and capacities below the current load are left out)."""
    s = copy.deepcopy(spec)
    done = []
    workers = [(ti, wi) for ti, tm in enumerate(s["teams"]) for wi in range(len(tm["workers"]))]
    facs = [(pi, fi) for pi, wp in enumerate(s["wps"]) for fi in range(len(wp["facilities"]))]
    kinds = ["skill", "cost", "work", "progress", "absence_assign", "absence_append", "rule", "solo", "fixed", "rate"]
    if facs:
        kinds += ["fskill", "space", "fcost"]
    kinds += ["skill_busy"] + (["fskill_busy"] if facs else [])
    # changes of the organization's structure: a new worker, a team's targets, a workplace's conveyor inputs
    kinds += ["add_worker", "team_target_add", "team_target_remove"] + (["wp_inputs_set"] if len(s["wps"]) >= 2 else [])
    if len(s["tasks"]) >= 2:
        kinds += ["edge_add"]
    free_comps = [k for k in range(len(s["comps"])) if not any(t["component"] == k for t in s["tasks"])]
    loose_tasks = [i for i, t in enumerate(s["tasks"]) if t["component"] is None]
    if free_comps and loose_tasks:
        kinds += ["bind_component", "bind_component"]
    if only is not None:
        kinds = [k for k in only if k in kinds]     # (repeated entries of `only` weigh more)
    kinds = kinds + [k for k in extra if k in kinds]  # (kinds a property is most sensitive to, drawn more often)
    kinds = [k for k in kinds if k not in skip]       # (kinds whose effect a monitor's log pass cannot follow)
    if not kinds:
        return s, done
    for _ in range(n or rng.randint(1, 3)):
        k = rng.choice(kinds)
        if k in ("skill", "cost", "absence_assign", "absence_append", "solo") and workers:
            ti, wi = rng.choice(workers)
            w = s["teams"][ti]["workers"][wi]
            o = model.workers[w["id"]]
            if k == "skill":
                t = rng.choice(s["tasks"])
                v = rng.choice([0.0, 0.5, 1.0, 2.0, 3.0])
                w["skills"][t["name"]] = v
                o.workamount_skill_mean_map[t["name"]] = v
                done.append("worker %s skill[%s]=%r" % (w["id"], t["name"], v))
            elif k == "cost":
                v = rng.choice([0.0, 1.0, 2.5, 4.0])
                w["cost"] = v
                o.cost_per_time = v
                done.append("worker %s cost=%r" % (w["id"], v))
            elif k == "absence_assign":
                v = sorted(rng.sample(range(0, 12), rng.randint(0, 3)))
                w["absence"] = list(v)
                o.absence_time_list = list(v)
                done.append("worker %s absence:=%r" % (w["id"], v))
            elif k == "absence_append":
                x = rng.randrange(0, 10)
                if x not in w["absence"]:
                    w["absence"].append(x)
                    o.absence_time_list.append(x)
                    done.append("worker %s absence+=%r" % (w["id"], x))
            else:
                w["solo"] = not w["solo"]
                o.solo_working = w["solo"]
                done.append("worker %s solo=%r" % (w["id"], w["solo"]))
        elif k in ("skill_busy", "fskill_busy"):
            # the skill of a resource for the very task it is working on right now
            pool = model.workers if k == "skill_busy" else model.facs
            busy = [(rid, o) for rid, o in sorted(pool.items()) if o.assigned_task_list]
            if busy:
                rid, o = rng.choice(busy)
                t = rng.choice(list(o.assigned_task_list))
                old_v = o.workamount_skill_mean_map.get(t.name, 0.0)
                v = rng.choice([x for x in (0.5, 1.0, 2.0, 3.0) if x != old_v])
                o.workamount_skill_mean_map[t.name] = v
                for grp, key in (((s["teams"], "workers"),) if k == "skill_busy" else ((s["wps"], "facilities"),)):
                    for g in grp:
                        for w in g[key]:
                            if w["id"] == rid:
                                w["skills"][t.name] = v
                done.append("%s %s skill[%s]=%r (busy)" % ("worker" if k == "skill_busy" else "facility", rid, t.name, v))
        elif k == "add_worker":
            ti = rng.randrange(len(s["teams"]))
            tm = s["teams"][ti]
            wid = "WN%d_%d" % (ti, len(tm["workers"]))
            if wid not in model.workers:
                names = sorted(set(t["name"] for t in s["tasks"]))
                sk = {nm: rng.choice([0.5, 1.0, 2.0]) for nm in rng.sample(names, min(len(names), rng.randint(1, 3)))}
                fsk = {f["name"]: 1.0 for wp in s["wps"] for f in wp["facilities"]}
                w = dict(name=wid.lower(), id=wid, skills=sk, fskills=fsk, cost=rng.choice([0.0, 1.0, 2.5]), solo=False, absence=[], main_wp=None)
                tm["workers"].append(w)
                wo = ns.BaseWorker(w["name"], ID=w["id"], cost_per_time=w["cost"], solo_working=False,
                                   workamount_skill_mean_map=dict(sk), facility_skill_map=dict(fsk), absence_time_list=[])
                # (a worker who joins a project that has logs gets logs of the same length, as a user would have to)
                n_ = len(model.project.cost_list)
                wo.state_record_list = [ns.BaseWorkerState.FREE] * n_
                wo.cost_list = [0.0] * n_
                wo.assigned_task_id_record = [[] for _ in range(n_)]
                model.teams[ti].add_worker(wo)
                model.workers[wid] = wo
                done.append("new worker %s in team %s skilled for %s" % (wid, tm["id"], sorted(sk)))
        elif k in ("team_target_add", "team_target_remove"):
            ti = rng.randrange(len(s["teams"]))
            tm, to = s["teams"][ti], model.teams[ti]
            if not tm.get("ctor_targets"):
                if k == "team_target_add":
                    cand = [i for i in range(len(s["tasks"])) if i not in tm["targets"]]
                    if cand:
                        i = rng.choice(cand)
                        tm["targets"].append(i)
                        to.append_targeted_task(model.tasks[i])
                        done.append("team %s now targets %s" % (tm["id"], s["tasks"][i]["id"]))
                elif tm["targets"]:
                    i = rng.choice(tm["targets"])
                    # prefer a task that has not started yet and that one of this team's workers could do: the
                    # un-assignment matters for allocations that are still to come
                    pending = [j for j in tm["targets"] if model.tasks[j].state in (ns.BaseTaskState.NONE, ns.BaseTaskState.READY)
                               and not model.tasks[j].allocated_worker_list
                               and any(w.workamount_skill_mean_map.get(model.tasks[j].name, 0.0) > 0 for w in to.worker_list)]
                    if pending and rng.random() < 0.7:
                        i = rng.choice(pending)
                    tm["targets"].remove(i)
                    to.targeted_task_list.remove(model.tasks[i])
                    if to in model.tasks[i].allocated_team_list:
                        model.tasks[i].allocated_team_list.remove(to)
                    done.append("team %s no longer targets %s" % (tm["id"], s["tasks"][i]["id"]))
        elif k == "wp_inputs_set":
            pi = rng.randrange(len(s["wps"]))
            others = [j for j in range(len(s["wps"])) if j != pi]
            new_in = sorted(rng.sample(others, rng.randint(0, min(2, len(others)))))
            if not s["wps"][pi].get("ctor_inputs"):
                # (one-sided, as an assignment to the public attribute is; the fresh model gets the same through its constructor)
                s["wps"][pi]["inputs"] = [j for j in new_in if j < pi]
                s["wps"][pi]["ctor_inputs"] = True
                model.wps[pi].input_workplace_list = [model.wps[j] for j in s["wps"][pi]["inputs"]]
                done.append("workplace %s inputs := %s" % (s["wps"][pi]["id"], [s["wps"][j]["id"] for j in s["wps"][pi]["inputs"]]))
        elif k == "bind_component":
            # a component that had no task so far gets one
            free_comps = [c for c in range(len(s["comps"])) if not any(t["component"] == c for t in s["tasks"])]
            loose_tasks = [i for i, t in enumerate(s["tasks"]) if t["component"] is None]
            if free_comps and loose_tasks:
                c, i = rng.choice(free_comps), rng.choice(loose_tasks)
                s["tasks"][i]["component"] = c
                model.comps[c].append_targeted_task(model.tasks[i])
                done.append("component %s now has task %s" % (s["comps"][c]["id"], s["tasks"][i]["id"]))
        elif k == "edge_add":
            # a new dependency between two tasks (from a lower to a higher index: no cycle)
            i = rng.randrange(1, len(s["tasks"]))
            j = rng.randrange(0, i)
            # list order is part of a model: a fresh build lists the successors of j by ascending index, the
            # in-place call appends - the same order only if i is behind every present successor of j
            last_succ = max([x for x, t in enumerate(s["tasks"]) if any(d[0] == j for d in t["deps"])] or [-1])
            # ... and never a cycle (some families register a head task last: index order is not topological there)
            def _reaches(a, b):
                todo, seen = [a], set()
                while todo:
                    x = todo.pop()
                    if x == b:
                        return True
                    if x in seen:
                        continue
                    seen.add(x)
                    todo.extend(k_ for k_, t_ in enumerate(s["tasks"]) if any(d[0] == x for d in t_["deps"]))
                return False
            if i > last_succ and not any(d[0] == j for d in s["tasks"][i]["deps"]) and not _reaches(i, j):
                kind = rng.choice([0, 0, 1, 2, 3])
                s["tasks"][i]["deps"].append([j, kind])
                model.tasks[i].append_input_task(model.tasks[j], ns.BaseTaskDependency(kind))
                done.append("new dependency %s -> %s (kind %d)" % (s["tasks"][j]["id"], s["tasks"][i]["id"], kind))
        elif k in ("work", "progress", "rule", "fixed", "rate"):
            i = rng.randrange(len(s["tasks"]))
            t = s["tasks"][i]
            o = model.tasks[i]
            if k == "work":
                v = rng.choice([0.0, 1.0, 2.0, 3.5, 6.0])
                t["work"] = v
                o.default_work_amount = v
                done.append("task %s work=%r" % (t["id"], v))
            elif k == "progress":
                v = rng.choice([0.0, 0.5, 1.0])
                t["progress"] = v
                o.default_progress = v
                done.append("task %s progress=%r" % (t["id"], v))
            elif k == "rule":
                v = rng.choice([-1, 0, 1, 2])
                t["wkr"] = v
                o.worker_priority_rule = ns.ResourcePriorityRuleMode(v)
                done.append("task %s worker rule=%r" % (t["id"], v))
            elif k == "fixed":
                if workers and not t["auto"]:
                    ti, wi = rng.choice(workers)
                    wid = s["teams"][ti]["workers"][wi]["id"]
                    t["fixed_workers"] = [wid]
                    o.fixing_allocating_worker_id_list = [wid]
                    done.append("task %s fixed workers=[%s]" % (t["id"], wid))
            elif t["auto"]:
                v = rng.choice([0.5, 1.0, 2.0])
                t["rate"] = v
                o.work_amount_progress_of_unit_step_time = v
                done.append("task %s rate=%r" % (t["id"], v))
        elif k in ("fskill", "fcost") and facs:
            pi, fi = rng.choice(facs)
            f = s["wps"][pi]["facilities"][fi]
            o = model.facs[f["id"]]
            if k == "fskill":
                t = rng.choice(s["tasks"])
                v = rng.choice([0.0, 0.5, 1.0, 2.0])
                f["skills"][t["name"]] = v
                o.workamount_skill_mean_map[t["name"]] = v
                done.append("facility %s skill[%s]=%r" % (f["id"], t["name"], v))
            else:
                v = rng.choice([0.0, 1.0, 2.5])
                f["cost"] = v
                o.cost_per_time = v
                done.append("facility %s cost=%r" % (f["id"], v))
        elif k == "space" and s["wps"]:
            pi = rng.randrange(len(s["wps"]))
            v = rng.choice([1.0, 1.5, 2.0, 3.0, 4.0])
            s["wps"][pi]["max_space"] = v
            model.wps[pi].max_space_size = v
            done.append("workplace %s space=%r" % (s["wps"][pi]["id"], v))
    return s, done
