"""Step monitors (invariants at the hook + write watchpoints + offline log checks).

Each monitor only *reads* the model.  A monitor reports through tr.violate(prop, mechanism,
msg, **witness); `mechanism` is the key matched against known_findings.json.
"""
from .common import load, TOL

ns = load()
TS = ns.BaseTaskState
CS = ns.BaseComponentState
WS = ns.BaseWorkerState
FSs = ns.BaseFacilityState
DEP = ns.BaseTaskDependency
RANK = {TS.NONE: 0, TS.READY: 1, TS.WORKING: 2, TS.FINISHED: 3}
EXEMPT_TOL = 1e-10


def exempt(t):
    return t.default_progress >= 1.0 - EXEMPT_TOL


def skill(res, name):
    v = res.workamount_skill_mean_map.get(name, 0.0)
    return v if v > 1e-10 else 0.0


def team_of(project, w):
    for tm in project.organization.team_list:
        for x in tm.worker_list:
            if x is w:
                return tm
    return None


def workplace_of(project, f):
    for wp in project.organization.workplace_list:
        for x in wp.facility_list:
            if x is f:
                return wp
    return None


def all_workers(project):
    return [w for tm in project.organization.team_list for w in tm.worker_list]


def all_facilities(project):
    return [f for wp in project.organization.workplace_list for f in wp.facility_list]


class Started(object):
    """Shared bookkeeping: which tasks have ever been started (WORKING/FINISHED written) since
    their last reset.  Default-finished tasks count as started and finished."""

    def __init__(self):
        self.started = set()

    def on_write(self, tr, obj, attr, old, new):
        if attr != "state" or not isinstance(obj, ns.BaseTask):
            return
        if tr.in_init and tr.init_stack[-1] is obj:
            self.started.discard(obj)
            if new == TS.FINISHED:
                self.started.add(obj)
            return
        if new in (TS.WORKING, TS.FINISHED):
            self.started.add(obj)

    def is_started(self, t):
        return t in self.started or t.state in (TS.WORKING, TS.FINISHED)


# =======================================================================================
# C01
# =======================================================================================
class MonC01(object):
    prop = "C01"

    def __init__(self, started):
        self.st = started
        self.prev_phase_state = {}
        self.live_rec = []   # per recorded step: {task: live state}
        self.rec_absent = []

    def _gate_ready(self, tr, t, where):
        for pred, dep in t.input_task_list:
            if dep == DEP.FS:
                tr.counters["C01.gate.FS"] += 1
                if pred.state != TS.FINISHED:
                    tr.violate("C01", "C01/left-NONE-before-FS-pred-finished",
                               "%s: task %s left NONE while FS predecessor %s is %s" % (where, t.ID, pred.ID, pred.state.name),
                               task=t, pred=pred)
            elif dep == DEP.SS:
                tr.counters["C01.gate.SS"] += 1
                if not self.st.is_started(pred):
                    tr.violate("C01", "C01/left-NONE-before-SS-pred-started",
                               "%s: task %s left NONE while SS predecessor %s never started (%s)" % (where, t.ID, pred.ID, pred.state.name),
                               task=t, pred=pred)

    def _gate_finish(self, tr, t, where):
        for pred, dep in t.input_task_list:
            if dep == DEP.FF:
                tr.counters["C01.gate.FF"] += 1
                if pred.state != TS.FINISHED:
                    tr.violate("C01", "C01/finished-before-FF-pred-finished",
                               "%s: task %s FINISHED while FF predecessor %s is %s" % (where, t.ID, pred.ID, pred.state.name),
                               task=t, pred=pred)
            elif dep == DEP.SF:
                tr.counters["C01.gate.SF"] += 1
                if not self.st.is_started(pred):
                    tr.violate("C01", "C01/finished-before-SF-pred-started",
                               "%s: task %s FINISHED while SF predecessor %s never started (%s)" % (where, t.ID, pred.ID, pred.state.name),
                               task=t, pred=pred)

    def on_write(self, tr, obj, attr, old, new):
        if attr != "state" or not isinstance(obj, ns.BaseTask):
            return
        if tr.in_init and tr.init_stack[-1] is obj:
            self.prev_phase_state.pop(obj, None)
            return
        if new == old:
            return
        tr.counters["C01.transitions"] += 1
        tr.counters["C01.tr.%s>%s" % (old.name, new.name)] += 1
        if RANK[new] < RANK[old]:
            tr.violate("C01", "C01/state-moved-backwards",
                       "task %s state written %s -> %s" % (obj.ID, old.name, new.name), task=obj)
        if exempt(obj):
            return
        if old == TS.NONE and new != TS.NONE:
            self._gate_ready(tr, obj, "write")
        if new == TS.FINISHED:
            self._gate_finish(tr, obj, "write")

    def on_phase(self, tr, project, phase, snap):
        if phase == "initialized":
            self.prev_phase_state = dict(snap.tstate)
            if tr.fresh_start:
                # "tasks whose default progress is already complete are FINISHED from the start"
                for t, st in snap.tstate.items():
                    if exempt(t):
                        tr.counters["C01.default_finished_checks"] += 1
                        if st != TS.FINISHED:
                            tr.violate("C01", "C01/default-finished-task-not-FINISHED-at-start",
                                       "task %s has default_progress %r but is %s when the run starts" % (t.ID, t.default_progress, st.name), task=t)
            return
        for t, st in snap.tstate.items():
            p = self.prev_phase_state.get(t)
            if p is not None and RANK[st] < RANK[p]:
                tr.violate("C01", "C01/state-moved-backwards",
                           "task %s live state %s at %s after %s" % (t.ID, st.name, phase, p.name), task=t)
            if exempt(t):
                continue
            if st != TS.NONE:
                self._gate_ready(tr, t, phase)
            if st == TS.FINISHED:
                self._gate_finish(tr, t, phase)
        self.prev_phase_state = dict(snap.tstate)
        if phase == "recorded":
            self.live_rec.append(dict(snap.tstate))
            self.rec_absent.append(snap.absent_step)

    def on_end(self, tr, project):
        """Offline pass over state_record_list only (guards against lying instrumentation)."""
        n = len(self.live_rec)
        for t in project.workflow.task_list:
            log = t.state_record_list
            if len(log) < n:
                continue
            log = log[len(log) - n:]
            for k in range(1, n):
                a, b = log[k - 1], log[k]
                if RANK[b] < RANK[a]:
                    if a == TS.WORKING and b == TS.READY and self.rec_absent[k]:
                        continue
                    tr.violate("C01", "C01/log-moved-backwards",
                               "task %s logged %s at step %d after %s" % (t.ID, b.name, k, a.name), task=t, k=k)
        started_by = {}
        for t in project.workflow.task_list:
            log = t.state_record_list
            if len(log) < n:
                continue
            log = log[len(log) - n:]
            s = None
            if exempt(t):
                s = -1
            else:
                for k in range(n):
                    if log[k] in (TS.WORKING, TS.FINISHED) or (
                            self.rec_absent[k] and log[k] == TS.READY and self.live_rec[k].get(t) == TS.WORKING):
                        s = k
                        break
            started_by[t] = s
        for t in project.workflow.task_list:
            if exempt(t):
                continue
            log = t.state_record_list
            if len(log) < n:
                continue
            log = log[len(log) - n:]
            for pred, dep in t.input_task_list:
                plog = pred.state_record_list
                if len(plog) < n:
                    continue
                plog = plog[len(plog) - n:]
                kind = DEP(dep).name
                both_changed = len(set(log)) > 1 and len(set(plog)) > 1
                if both_changed:
                    tr.counters["C01.edge_active.%s" % kind] += 1
                    if dep != DEP.FS:
                        tr.counters["C01.nonFS_active"] += 1
                    pw = sum(1 for x in plog if x == TS.WORKING)
                    tr.counters["C01.cell.%s.pred1step=%s" % (kind, pw <= 1)] += 1
                    fa = [k for k in range(n) if log[k] == TS.FINISHED]
                    fb = [k for k in range(n) if plog[k] == TS.FINISHED]
                    if fa and fb and fa[0] == fb[0]:
                        tr.counters["C01.cell.%s.finish_same_step" % kind] += 1
                for k in range(n):
                    tr.counters["C01.log_checks"] += 1
                    if dep == DEP.FS and log[k] != TS.NONE and plog[k] != TS.FINISHED and not exempt(pred):
                        tr.violate("C01", "C01/left-NONE-before-FS-pred-finished",
                                   "log: task %s %s at step %d while FS predecessor %s logged %s" % (t.ID, log[k].name, k, pred.ID, plog[k].name), task=t, pred=pred, k=k)
                        break
                    if dep == DEP.SS and log[k] != TS.NONE and (started_by[pred] is None or started_by[pred] > k):
                        tr.violate("C01", "C01/left-NONE-before-SS-pred-started",
                                   "log: task %s %s at step %d, SS predecessor %s not started by then" % (t.ID, log[k].name, k, pred.ID), task=t, pred=pred, k=k)
                        break
                    if dep == DEP.FF and log[k] == TS.FINISHED and plog[k] != TS.FINISHED and not exempt(pred):
                        tr.violate("C01", "C01/finished-before-FF-pred-finished",
                                   "log: task %s FINISHED at step %d while FF predecessor %s logged %s" % (t.ID, k, pred.ID, plog[k].name), task=t, pred=pred, k=k)
                        break
                    if dep == DEP.SF and log[k] == TS.FINISHED and (started_by[pred] is None or started_by[pred] > k):
                        tr.violate("C01", "C01/finished-before-SF-pred-started",
                                   "log: task %s FINISHED at step %d, SF predecessor %s not started by then" % (t.ID, k, pred.ID), task=t, pred=pred, k=k)
                        break


# =======================================================================================
# C02
# =======================================================================================
def expected_contribution(tr, t, snap):
    """Contribution to task t in this step according to the property, from the state at
    'allocated' (snap).  Returns (value, kind)."""
    if snap.tstate[t] != TS.WORKING:
        return 0.0, "not-working"
    if t.auto_task:
        if snap.absent_step and not tr.auto_flag:
            return 0.0, "auto-absence-off"
        return t.work_amount_progress_of_unit_step_time, "auto"
    if snap.absent_step:
        return 0.0, "project-absence"
    total = 0.0
    if t.need_facility:
        ws, fs = snap.aw[t], snap.af[t]
        for i in range(min(len(ws), len(fs))):
            w, f = ws[i], fs[i]
            # absence is read from the resources' own absence lists (the specification), not from
            # the state the code gave them
            wv = 0.0 if snap.step in w.absence_time_list else skill(w, t.name)
            fv = 0.0 if snap.step in f.absence_time_list else skill(f, t.name)
            total += wv * fv
        return total, "facility"
    for w in snap.aw[t]:
        if snap.step in w.absence_time_list:
            continue
        total += skill(w, t.name)
    return total, "workers"


class MonC02(object):
    prop = "C02"

    def __init__(self, started):
        self.st = started
        self.alloc = None
        self.update_writes = []
        self.pending_finish = []

    def on_write(self, tr, obj, attr, old, new):
        if attr != "remaining_work_amount" or not isinstance(obj, ns.BaseTask):
            return
        if tr.in_init:
            return
        if tr.segment == "perform":
            return
        if tr.segment == "update" and new == 0.0:
            self.update_writes.append(obj)
            return
        if new != old:
            tr.violate("C02", "C02/remaining-written-outside-perform",
                       "task %s remaining %r -> %r written during segment %s" % (obj.ID, old, new, tr.segment), task=obj)

    def on_phase(self, tr, project, phase, snap):
        if phase == "initialized":
            if tr.fresh_start:
                for t in project.workflow.task_list:
                    exp = t.default_work_amount * (1.0 - t.default_progress)
                    tr.counters["C02.initial"] += 1
                    if abs(snap.rem[t] - exp) > TOL:
                        tr.violate("C02", "C02/initial-remaining",
                                   "task %s starts with remaining %r, expected %r" % (t.ID, snap.rem[t], exp), task=t)
            return
        if phase == "updated":
            for t in self.update_writes:
                if snap.tstate[t] != TS.FINISHED:
                    tr.violate("C02", "C02/remaining-written-outside-perform",
                               "task %s remaining reset to 0 during update but state is %s" % (t.ID, snap.tstate[t].name), task=t)
            self.update_writes = []
            prev = tr.prev_rec
            for t, st in snap.tstate.items():
                if st == TS.FINISHED:
                    if abs(snap.rem[t]) > 0.0 and not exempt(t):
                        tr.violate("C02", "C02/finished-remaining-nonzero",
                                   "task %s FINISHED with remaining %r" % (t.ID, snap.rem[t]), task=t)
                    if prev is not None and prev.tstate.get(t) not in (None, TS.FINISHED):
                        tr.counters["C02.finish_events"] += 1
                        if prev.rem[t] > 1e-6:
                            tr.violate("C02", "C02/finished-early",
                                       "task %s FINISHED at step %d with %r work left after previous step" % (t.ID, snap.step, prev.rem[t]), task=t)
                elif prev is not None and prev.tstate.get(t) == TS.WORKING and prev.rem[t] <= 1e-10:
                    # remaining reached zero at the previous step: must be FINISHED now if the
                    # finish dependencies already held at the previous step
                    ok = True
                    for pred, dep in t.input_task_list:
                        if dep == DEP.FF and prev.tstate.get(pred) != TS.FINISHED:
                            ok = False
                        if dep == DEP.SF and not (pred in self.st.started_before_update or exempt(pred)):
                            ok = False
                    tr.counters["C02.zero_waiting"] += 1
                    # strict reading (the finish check is a fixed point since F2): the finish dependencies
                    # hold *now*, after this update, so the task must be FINISHED now
                    now_ok = True
                    for pred, dep in t.input_task_list:
                        if dep == DEP.FF and snap.tstate.get(pred) != TS.FINISHED:
                            now_ok = False
                        if dep == DEP.SF and not (self.st.is_started(pred) or exempt(pred)):
                            now_ok = False
                    if now_ok and not ok:
                        tr.violate("C02", "C02/not-finished-although-finish-dependencies-hold-now",
                                   "task %s has remaining %r since step %d and its finish dependencies hold after the update of step %d, but it is %s" % (
                                       t.ID, prev.rem[t], prev.step, snap.step, st.name), task=t)
                    if ok:
                        mech = "C02/not-finished-after-zero"
                        sfp = [p for p, d in t.input_task_list if d == DEP.SF and prev.tstate.get(p) == TS.FINISHED]
                        if sfp:
                            mech = "C02/not-finished-after-zero:SF-pred-already-FINISHED"
                        tr.violate("C02", mech,
                                   "task %s had remaining %r after step %d, finish dependencies held, but is %s at step %d" % (
                                       t.ID, prev.rem[t], prev.step, st.name, snap.step), task=t)
            # non-perform segments must not change remaining work
            if prev is not None:
                for t in snap.rem:
                    if t in prev.rem and snap.tstate[t] != TS.FINISHED and snap.rem[t] != prev.rem[t]:
                        tr.violate("C02", "C02/remaining-changed-outside-perform",
                                   "task %s remaining changed %r -> %r between recorded and updated" % (t.ID, prev.rem[t], snap.rem[t]), task=t)
            return
        if phase == "allocated":
            up = tr.last.get("updated")
            if up is not None:
                for t in snap.rem:
                    if snap.rem[t] != up.rem[t]:
                        tr.violate("C02", "C02/remaining-changed-outside-perform",
                                   "task %s remaining changed %r -> %r during allocation" % (t.ID, up.rem[t], snap.rem[t]), task=t)
            self.alloc = snap
            return
        if phase == "performed":
            a = self.alloc
            if a is None:
                return
            for t in a.rem:
                exp, kind = expected_contribution(tr, t, a)
                got = a.rem[t] - snap.rem[t]
                tr.counters["C02.balances"] += 1
                tr.counters["C02.kind." + kind] += 1
                if kind in ("workers", "facility"):
                    nabs = sum(1 for w in a.aw[t] if a.step in w.absence_time_list) + \
                        sum(1 for f in a.af[t] if a.step in f.absence_time_list)
                    if len(a.aw[t]) >= 2:
                        tr.counters["C02.multi_worker_balances"] += 1
                    if nabs:
                        tr.counters["C02.absent_resource_balances"] += 1
                if abs(got - exp) > TOL:
                    mech = "C02/balance:" + kind
                    tr.violate("C02", mech,
                               "step %d task %s (%s): remaining %r -> %r (delta %r), expected contribution %r [%s]" % (
                                   snap.step, t.ID, a.tstate[t].name, a.rem[t], snap.rem[t], got, exp, kind),
                               task=t, workers=list(a.aw[t]), facilities=list(a.af[t]),
                               wstates=[a.wstate.get(w).name for w in a.aw[t]])
                if snap.tstate[t] != a.tstate[t]:
                    tr.violate("C02", "C02/state-changed-during-perform",
                               "task %s state %s -> %s during perform" % (t.ID, a.tstate[t].name, snap.tstate[t].name), task=t)
            return
        if phase == "recorded":
            pf = tr.last.get("performed")
            if pf is not None:
                for t in snap.rem:
                    if snap.rem[t] != pf.rem[t]:
                        tr.violate("C02", "C02/remaining-changed-outside-perform",
                                   "task %s remaining changed during record" % t.ID, task=t)

    def on_end(self, tr, project):
        b = tr.log_base
        for t in project.workflow.task_list:
            for k, (s, r) in enumerate(zip(t.state_record_list, t.remaining_work_amount_record_list)):
                tr.counters["C02.log_checks"] += 1
                if s == TS.FINISHED and r != 0.0 and not exempt(t):
                    tr.violate("C02", "C02/finished-remaining-nonzero",
                               "log: task %s FINISHED at step %d with remaining %r" % (t.ID, k, r), task=t, k=k)
                    break
            # log-only: remaining work never changes at a step where the task is not logged WORKING
            rl, sl = t.remaining_work_amount_record_list[b:], t.state_record_list[b:]
            for k in range(1, min(len(rl), len(sl))):
                if sl[k] not in (TS.WORKING,) and rl[k] != rl[k - 1] and sl[k] != TS.FINISHED:
                    if sl[k] == TS.READY and t.auto_task and tr.auto_flag:
                        continue  # automatic task performed during an absence step (displayed READY)
                    tr.violate("C02", "C02/log-nonworking-progress",
                               "log: task %s logged %s at step %d but remaining changed %r -> %r" % (t.ID, sl[k].name, k, rl[k - 1], rl[k]), task=t, k=k)
                    break


class StartedSnap(Started):
    """Started + a copy of the set as it was at the last 'recorded' phase."""

    def __init__(self):
        Started.__init__(self)
        self.started_before_update = set()

    def on_phase(self, tr, project, phase, snap):
        if phase in ("recorded", "initialized"):
            self.started_before_update = set(self.started)
            for t, st in snap.tstate.items():
                if st in (TS.WORKING, TS.FINISHED):
                    self.started_before_update.add(t)


# =======================================================================================
# C03
# =======================================================================================
class MonC03(object):
    prop = "C03"

    def on_phase(self, tr, project, phase, snap):
        if phase not in ("updated", "allocated", "recorded"):
            return
        tr.counters["C03.phase_checks"] += 1
        for res_kind, assigned, rstate, alist, WORKING in (
                ("worker", snap.wassigned, snap.wstate, snap.aw, WS.WORKING),
                ("facility", snap.fassigned, snap.fstate, snap.af, FSs.WORKING)):
            for r, tasks in assigned.items():
                tr.counters["C03.resource_checks"] += 1
                if len(tasks) > 1:
                    tr.violate("C03", "C03/%s-multiple-tasks" % res_kind,
                               "%s: %s %s assigned to %d tasks %s" % (phase, res_kind, r.ID, len(tasks), [t.ID for t in tasks]), res=r)
                for t in tasks:
                    if t not in alist or sum(1 for x in alist[t] if x is r) != sum(1 for x in tasks if x is t):
                        tr.violate("C03", "C03/%s-lists-disagree" % res_kind,
                                   "%s: %s %s lists task %s but the task does not list it (equally often)" % (phase, res_kind, r.ID, t.ID), res=r, task=t)
                if phase == "updated" and rstate[r] == WORKING and not tasks:
                    # after the update of a step (finished tasks have just released their resources) the absence of
                    # THIS step is not applied yet, so only one direction can be demanded here: WORKING => holds a task
                    tr.violate("C03", "C03/%s-working-without-task" % res_kind,
                               "updated step %d: %s %s is WORKING but holds no task" % (snap.step, res_kind, r.ID), res=r)
                if phase in ("allocated", "recorded"):
                    absent = snap.absent_step or (snap.step in r.absence_time_list)
                    should = (len(tasks) > 0) and not absent
                    if (rstate[r] == WORKING) != should:
                        tr.violate("C03", "C03/%s-working-iff-holds" % res_kind,
                                   "%s step %d: %s %s state %s, holds %s, absent %s" % (
                                       phase, snap.step, res_kind, r.ID, rstate[r].name, [t.ID for t in tasks], absent), res=r)
            for t, rs in alist.items():
                for r in rs:
                    if r not in assigned or not any(x is t for x in assigned[r]):
                        tr.violate("C03", "C03/%s-lists-disagree" % res_kind,
                                   "%s: task %s lists %s %s which does not list the task" % (phase, t.ID, res_kind, getattr(r, "ID", r)), task=t)
                if len(set(map(id, rs))) != len(rs):
                    tr.violate("C03", "C03/%s-listed-twice" % res_kind,
                               "%s: task %s lists a %s twice" % (phase, t.ID, res_kind), task=t)
                if rs and snap.tstate[t] in (TS.NONE, TS.FINISHED):
                    tr.violate("C03", "C03/%s-held-by-%s-task" % (res_kind, snap.tstate[t].name),
                               "%s: task %s is %s but holds %s" % (phase, t.ID, snap.tstate[t].name, [r.ID for r in rs]), task=t)
        if phase == "allocated":
            nready = sum(1 for t, s in snap.tstate.items() if s in (TS.READY, TS.WORKING) and not t.auto_task)
            nfree = sum(1 for w, s in snap.wstate.items() if s == WS.FREE)
            if nready > 0 and nfree == 0:
                tr.counters["C03.contention_steps"] += 1

    def on_end(self, tr, project):
        """Live state as simulate() leaves it, then the offline cross-check of the ID logs."""
        for res_kind, rs, WORKING in (("worker", all_workers(project), WS.WORKING), ("facility", all_facilities(project), FSs.WORKING)):
            for r in rs:
                tr.counters["C03.final_state_checks"] += 1
                if r.state == WORKING and not r.assigned_task_list:
                    tr.violate("C03", "C03/%s-working-without-task" % res_kind,
                               "after the run: %s %s is WORKING but holds no task" % (res_kind, r.ID), res=r)
        tasks = project.workflow.task_list
        n = min([len(t.state_record_list) for t in tasks] or [0])
        for kind, resources, rec_attr in (("worker", all_workers(project), "allocated_worker_id_record"),
                                          ("facility", all_facilities(project), "allocated_facility_id_record")):
            for k in range(tr.log_base, n):
                holders = {}
                for t in tasks:
                    rec = getattr(t, rec_attr)
                    if k >= len(rec) or rec[k] is None:
                        continue
                    for rid in rec[k]:
                        holders.setdefault(rid, []).append(t.ID)
                    if rec[k] and t.state_record_list[k] in (TS.NONE, TS.FINISHED):
                        tr.violate("C03", "C03/%s-held-by-%s-task" % (kind, t.state_record_list[k].name),
                                   "log step %d: task %s logged %s holds %s" % (k, t.ID, t.state_record_list[k].name, rec[k]), task=t, k=k)
                for rid, ts in holders.items():
                    if len(ts) > 1:
                        tr.violate("C03", "C03/%s-multiple-tasks" % kind,
                                   "log step %d: %s %s allocated to %s" % (k, kind, rid, ts), k=k)
                for r in resources:
                    if k >= len(r.assigned_task_id_record) or r.assigned_task_id_record[k] is None:
                        continue
                    tr.counters["C03.log_checks"] += 1
                    mine = sorted(r.assigned_task_id_record[k])
                    theirs = sorted(holders.get(r.ID, []))
                    if mine != theirs:
                        tr.violate("C03", "C03/%s-lists-disagree" % kind,
                                   "log step %d: %s %s assigned %s, tasks say %s" % (k, kind, r.ID, mine, theirs), res=r, k=k)


# =======================================================================================
# C04
# =======================================================================================
class MonC04(object):
    prop = "C04"

    def on_phase(self, tr, project, phase, snap):
        if phase != "allocated":
            return
        prev = tr.prev_rec
        for t in snap.aw:
            ws, fs = snap.aw[t], snap.af[t]
            if not ws and not fs:
                continue
            pw = set(map(id, prev.aw.get(t, ()))) if prev is not None else set()
            pf = set(map(id, prev.af.get(t, ()))) if prev is not None else set()
            new_w = [w for w in ws if id(w) not in pw]
            new_f = [f for f in fs if id(f) not in pf]
            if any(w.solo_working for w in ws) and len(ws) > 1:
                tr.violate("C04", "C04/solo-worker-combined",
                           "step %d: task %s has solo worker among %s" % (snap.step, t.ID, [w.ID for w in ws]), task=t)
            if any(f.solo_working for f in fs) and len(fs) > 1:
                tr.violate("C04", "C04/solo-facility-combined",
                           "step %d: task %s has solo facility among %s" % (snap.step, t.ID, [f.ID for f in fs]), task=t)
            if t.need_facility and len(ws) != len(fs):
                tr.violate("C04", "C04/unpaired",
                           "step %d: facility task %s has %d workers and %d facilities" % (snap.step, t.ID, len(ws), len(fs)), task=t)
            if not t.need_facility and fs:
                tr.violate("C04", "C04/facility-on-non-facility-task",
                           "step %d: task %s needs no facility but holds %s" % (snap.step, t.ID, [f.ID for f in fs]), task=t)
            if new_w and snap.absent_step:
                tr.violate("C04", "C04/allocated-during-project-absence",
                           "step %d (project absence): task %s newly got %s" % (snap.step, t.ID, [w.ID for w in new_w]), task=t)
            for w in new_w:
                tr.counters["C04.new_worker_allocations"] += 1
                if skill(w, t.name) <= 0.0:
                    tr.violate("C04", "C04/worker-without-skill",
                               "step %d: worker %s without skill allocated to %s" % (snap.step, w.ID, t.ID), task=t, res=w)
                tm = team_of(project, w)
                if tm is None or not any(x is t for x in tm.targeted_task_list):
                    tr.violate("C04", "C04/worker-team-not-assigned",
                               "step %d: worker %s (team %s) allocated to %s which his team does not target" % (
                                   snap.step, w.ID, getattr(tm, "ID", None), t.ID), task=t, res=w)
                if snap.step in w.absence_time_list:
                    tr.violate("C04", "C04/absent-worker-allocated",
                               "step %d: absent worker %s allocated to %s" % (snap.step, w.ID, t.ID), task=t, res=w)
                if t.fixing_allocating_worker_id_list is not None and w.ID not in t.fixing_allocating_worker_id_list:
                    tr.violate("C04", "C04/worker-not-in-fixed-list",
                               "step %d: worker %s not in fixed list %s of %s" % (snap.step, w.ID, t.fixing_allocating_worker_id_list, t.ID), task=t, res=w)
            for f in new_f:
                tr.counters["C04.new_facility_allocations"] += 1
                if skill(f, t.name) <= 0.0:
                    tr.violate("C04", "C04/facility-without-skill",
                               "step %d: facility %s without skill allocated to %s" % (snap.step, f.ID, t.ID), task=t, res=f)
                wp = workplace_of(project, f)
                if wp is None or not any(x is t for x in wp.targeted_task_list):
                    tr.violate("C04", "C04/facility-workplace-not-assigned",
                               "step %d: facility %s allocated to %s which its workplace does not target" % (snap.step, f.ID, t.ID), task=t, res=f)
                if snap.step in f.absence_time_list:
                    tr.violate("C04", "C04/absent-facility-allocated",
                               "step %d: absent facility %s allocated to %s" % (snap.step, f.ID, t.ID), task=t, res=f)
                if t.fixing_allocating_facility_id_list is not None and f.ID not in t.fixing_allocating_facility_id_list:
                    tr.violate("C04", "C04/facility-not-in-fixed-list",
                               "step %d: facility %s not in fixed list of %s" % (snap.step, f.ID, t.ID), task=t, res=f)
            if t.need_facility:
                for i in range(min(len(ws), len(fs))):
                    if id(fs[i]) in pf and id(ws[i]) in pw:
                        continue
                    tr.counters["C04.new_pairs"] += 1
                    if not (ws[i].facility_skill_map.get(fs[i].name, 0.0) > 1e-10):
                        tr.violate("C04", "C04/worker-cannot-operate-facility",
                                   "step %d: task %s pair (%s,%s): worker has no skill for the facility" % (snap.step, t.ID, ws[i].ID, fs[i].ID), task=t)
            # non-trivial situation: an ineligible candidate was free at the previous phase
            if new_w:
                up = tr.last.get("updated")
                if up is not None:
                    for w, st in snap.wstate.items():
                        if id(w) in set(map(id, ws)):
                            continue
                        tm = team_of(project, w)
                        inel = skill(w, t.name) <= 0.0 or not any(x is t for x in tm.targeted_task_list) or (
                            t.fixing_allocating_worker_id_list is not None and w.ID not in t.fixing_allocating_worker_id_list)
                        if inel and not snap.wassigned[w]:
                            tr.counters["C04.alloc_with_ineligible_free_candidate"] += 1
                            break

    def on_end(self, tr, project):
        """Offline pass on the ID logs (skills, teams, fixed lists are static)."""
        wb = {w.ID: w for w in all_workers(project)}
        fb = {f.ID: f for f in all_facilities(project)}
        for t in project.workflow.task_list:
            for k, rec in enumerate(t.allocated_worker_id_record):
                for wid in (rec or ()):
                    tr.counters["C04.log_checks"] += 1
                    w = wb.get(wid)
                    if w is None:
                        tr.violate("C04", "C04/unknown-worker-id", "log: task %s step %d lists unknown worker %s" % (t.ID, k, wid), task=t)
                        continue
                    if skill(w, t.name) <= 0.0:
                        tr.violate("C04", "C04/worker-without-skill", "log: step %d worker %s without skill on %s" % (k, wid, t.ID), task=t, k=k)
                    if t.fixing_allocating_worker_id_list is not None and wid not in t.fixing_allocating_worker_id_list:
                        tr.violate("C04", "C04/worker-not-in-fixed-list", "log: step %d worker %s not in fixed list of %s" % (k, wid, t.ID), task=t, k=k)
            for k, rec in enumerate(t.allocated_facility_id_record):
                for fid in (rec or ()):
                    f = fb.get(fid)
                    if f is None:
                        tr.violate("C04", "C04/unknown-facility-id", "log: task %s step %d lists unknown facility %s" % (t.ID, k, fid), task=t)
                        continue
                    if skill(f, t.name) <= 0.0:
                        tr.violate("C04", "C04/facility-without-skill", "log: step %d facility %s without skill on %s" % (k, fid, t.ID), task=t, k=k)


# =======================================================================================
# C06
# =======================================================================================
def worker_eligible(project, w, t):
    if skill(w, t.name) <= 0.0:
        return False
    tm = team_of(project, w)
    if tm is None or not any(x is t for x in tm.targeted_task_list):
        return False
    if t.fixing_allocating_worker_id_list is not None and w.ID not in t.fixing_allocating_worker_id_list:
        return False
    return True


def usable_free_facilities(project, snap, tr, t, touched):
    """Facilities that are still FREE after the allocation pass and could have served the facility task t
    (claimed only for a component that carries this single task and has been lying at the workplace since
    the update of this step; see DESIGN C06)."""
    fs = snap.af[t]
    c = t.target_component
    if c is None or len(c.targeted_task_list) != 1:
        return []
    wp = snap.cplace.get(c)
    if wp is None:
        return []
    if c.parent_component_list:
        # a nested component may be dragged into a workplace by its parent's move later
        # in the same allocation pass: claim the pair clause only if it was already there
        up = tr.last.get("updated")
        if up is None or up.cplace.get(c) is not wp:
            return []
        if id(c) in touched:
            return []   # moved away and dragged back within this allocation pass
    if any(workplace_of(project, f) is not wp for f in fs):
        return []   # site inconsistency is C13's business
    if not any(x is t for x in wp.targeted_task_list):
        return []
    out = []
    for f in wp.facility_list:
        if snap.fstate[f] != FSs.FREE or snap.fassigned[f]:
            continue
        if skill(f, t.name) <= 0.0:
            continue
        if t.fixing_allocating_facility_id_list is not None and f.ID not in t.fixing_allocating_facility_id_list:
            continue
        if f.solo_working and fs:
            continue
        out.append(f)
    return out


class MonC06(object):
    prop = "C06"

    def __init__(self, started):
        self.st = started
        self.started_at = {}   # task -> first step at which it was seen started at 'recorded'
        self.rec = []
        self.touched = set()   # ids of components whose placed_workplace was written in this step
        self.entered = {}      # id(workplace) -> {id(component): component} written into it in this step

    def on_write(self, tr, obj, attr, old, new):
        if attr == "placed_workplace":
            self.touched.add(id(obj))
            if new is not None:
                # every component that entered a workplace at any moment of this step (a nested component may enter
                # and leave again within one pass - the known "moved twice" finding - and occupy space in between)
                self.entered.setdefault(id(new), {})[id(obj)] = obj

    def on_phase(self, tr, project, phase, snap):
        if phase == "recorded":
            self.touched = set()
            self.entered = {}
            for t, s in snap.tstate.items():
                if t not in self.started_at and (s in (TS.WORKING, TS.FINISHED)):
                    self.started_at[t] = -1 if exempt(t) else snap.step
            self.rec.append(snap)
            return
        if phase != "allocated" or snap.absent_step:
            return
        free_workers = [w for w, s in snap.wstate.items() if s == WS.FREE and not snap.wassigned[w]]
        waiting = [t for t, s in snap.tstate.items() if s in (TS.READY, TS.WORKING) and not t.auto_task]
        if free_workers and waiting:
            tr.counters["C06.steps_free_worker_and_waiting_task"] += 1
        for t in waiting:
            ws, fs = snap.aw[t], snap.af[t]
            if any(w.solo_working for w in ws) or any(f.solo_working for f in fs):
                continue
            if not t.need_facility:
                for w in free_workers:
                    tr.counters["C06.pairs_examined"] += 1
                    if not worker_eligible(project, w, t):
                        continue
                    if w.solo_working and ws:
                        continue
                    tr.violate("C06", "C06/idle-eligible-worker",
                               "step %d: worker %s stays FREE although task %s (%s) could accept him" % (snap.step, w.ID, t.ID, snap.tstate[t].name),
                               task=t, res=w)
            else:
                # a single-task flat component that lies NOWHERE after the pass although a workplace of its task
                # had room for it throughout the pass (components may leave and enter during a pass: everything that lay
                # there at 'updated', lies there at 'allocated' or was written into it at any moment of the step is counted),
                # a FREE facility there that could serve the task and a FREE worker who can operate it
                c = t.target_component
                if (c is not None and len(c.targeted_task_list) == 1 and not c.parent_component_list and not c.child_component_list
                        and snap.cplace.get(c) is None and snap.tstate[t] == TS.READY and not ws and not fs):
                    for wp in t.allocated_workplace_list:
                        if wp not in snap.wpcontent or not any(x is t for x in wp.targeted_task_list):
                            continue
                        up_ = tr.last.get("updated")
                        if up_ is None or wp not in up_.wpcontent:
                            continue
                        there = {id(x): x for x in list(up_.wpcontent[wp]) + list(snap.wpcontent[wp])}
                        there.update(self.entered.get(id(wp), {}))
                        used = sum(x.space_size for x in there.values())
                        if not (wp.max_space_size - used >= c.space_size):
                            continue
                        tr.counters["C06.unplaced_component_with_room"] += 1
                        for f in wp.facility_list:
                            if snap.fstate[f] != FSs.FREE or snap.fassigned[f] or skill(f, t.name) <= 1e-10:
                                continue
                            if t.fixing_allocating_facility_id_list is not None and f.ID not in t.fixing_allocating_facility_id_list:
                                continue
                            for w in free_workers:
                                if not worker_eligible(project, w, t):
                                    continue
                                if not (w.facility_skill_map.get(f.name, 0.0) > 1e-10):
                                    continue
                                tr.violate("C06", "C06/idle-eligible-pair:component-not-placed",
                                           "step %d: component %s (size %r) of the READY facility task %s lies nowhere although %s has %r of %r free; worker %s and facility %s stay FREE" % (
                                               snap.step, c.ID, c.space_size, t.ID, wp.ID, wp.max_space_size - used, wp.max_space_size, w.ID, f.ID),
                                           task=t, res=w, fac=f)
                for f in usable_free_facilities(project, snap, tr, t, self.touched):
                    for w in free_workers:
                        tr.counters["C06.facility_pairs_examined"] += 1
                        if not worker_eligible(project, w, t):
                            continue
                        if not (w.facility_skill_map.get(f.name, 0.0) > 1e-10):
                            continue
                        if w.solo_working and ws:
                            continue
                        tr.violate("C06", "C06/idle-eligible-pair",
                                   "step %d: worker %s and facility %s stay FREE although facility task %s could accept them" % (snap.step, w.ID, f.ID, t.ID),
                                   task=t, res=w, fac=f)

    def on_end(self, tr, project):
        n = len(self.rec)
        for t in project.workflow.task_list:
            if exempt(t) or len(t.state_record_list) < n:
                continue
            log = t.state_record_list[len(t.state_record_list) - n:]
            for k in range(n):
                snap = self.rec[k]
                if snap.absent_step:
                    continue
                # (b) automatic task without component never waits in READY at a working step
                if t.auto_task and t.target_component is None and log[k] == TS.READY:
                    tr.violate("C06", "C06/auto-task-waits-ready",
                               "automatic task %s logged READY at working step %d" % (t.ID, snap.step), task=t, k=k)
                    break
            for k in range(n):
                snap = self.rec[k]
                if snap.absent_step or log[k] != TS.NONE:
                    continue
                # (a) dependencies already satisfied at the previous step
                ok = True
                for pred, dep in t.input_task_list:
                    if dep == DEP.FS:
                        if exempt(pred):
                            continue
                        if k == 0 or self.rec[k - 1].tstate.get(pred) != TS.FINISHED:
                            ok = False
                    elif dep == DEP.SS:
                        s = self.started_at.get(pred)
                        if exempt(pred):
                            continue
                        if s is None or k == 0 or s > self.rec[k - 1].step:
                            ok = False
                tr.counters["C06.none_checks"] += 1
                # strict reading: a finish-to-start predecessor that is FINISHED at this very step was
                # finished by the update of this step, which also decides readiness; SS predecessors can
                # only start after an update, so for them "has started" means started by the previous step
                now_ok = True
                for pred, dep in t.input_task_list:
                    if exempt(pred):
                        continue
                    if dep == DEP.FS and snap.tstate.get(pred) != TS.FINISHED:
                        now_ok = False
                    elif dep == DEP.SS:
                        s = self.started_at.get(pred)
                        if s is None or k == 0 or s > self.rec[k - 1].step:
                            now_ok = False
                if now_ok and not ok:
                    tr.violate("C06", "C06/none-although-dependencies-hold-now",
                               "task %s logged NONE at working step %d although its FS predecessors are FINISHED at that step and its SS predecessors have started" % (t.ID, snap.step), task=t, k=k)
                    break
                if ok:
                    ssf = [p for p, d in t.input_task_list if d == DEP.SS and k > 0 and self.rec[k - 1].tstate.get(p) == TS.FINISHED]
                    mech = "C06/none-with-satisfied-dependencies"
                    if ssf:
                        mech += ":SS-pred-already-FINISHED"
                    tr.violate("C06", mech,
                               "task %s logged NONE at working step %d although its dependencies held at the previous step" % (t.ID, snap.step), task=t, k=k)
                    break
        # (d) zero remaining + finish dependencies held at the previous step => FINISHED now
        for k in range(1, n):
            prev, cur = self.rec[k - 1], self.rec[k]
            for t in project.workflow.task_list:
                if prev.tstate.get(t) == TS.WORKING and prev.rem[t] <= 1e-10 and cur.tstate.get(t) != TS.FINISHED:
                    ok = True
                    for pred, dep in t.input_task_list:
                        if dep == DEP.FF and prev.tstate.get(pred) != TS.FINISHED:
                            ok = False
                        if dep == DEP.SF:
                            s = self.started_at.get(pred)
                            if s is None or s > prev.step:
                                ok = False
                    tr.counters["C06.zero_checks"] += 1
                    now_ok = True
                    for pred, dep in t.input_task_list:
                        if dep == DEP.FF and cur.tstate.get(pred) != TS.FINISHED:
                            now_ok = False
                        if dep == DEP.SF:
                            # a predecessor can only start *after* the update of a step (allocation), so
                            # "has started" at the update of cur.step means started by the previous step
                            s = self.started_at.get(pred)
                            if s is None or s > prev.step:
                                now_ok = False
                    if now_ok and not ok:
                        tr.violate("C06", "C06/not-finished-although-finish-dependencies-hold-now",
                                   "task %s reached zero at step %d, its finish dependencies hold at step %d, but it is logged %s there" % (
                                       t.ID, prev.step, cur.step, cur.tstate.get(t).name), task=t)
                    if ok:
                        mech = "C06/not-finished-after-zero"
                        if [p for p, d in t.input_task_list if d == DEP.SF and prev.tstate.get(p) == TS.FINISHED]:
                            mech += ":SF-pred-already-FINISHED"
                        tr.violate("C06", mech,
                                   "task %s reached zero at step %d with finish dependencies satisfied but is %s at step %d" % (
                                       t.ID, prev.step, cur.tstate.get(t).name, cur.step), task=t)


# =======================================================================================
# C07
# =======================================================================================
class MonC07(object):
    prop = "C07"

    def __init__(self):
        self.alloc = None

    def on_phase(self, tr, project, phase, snap):
        if phase == "allocated":
            self.alloc = snap
        elif phase == "recorded" and self.alloc is not None:
            a = self.alloc
            for rs, WORKING in ((a.wstate, WS.WORKING), (a.fstate, FSs.WORKING)):
                for r, st in rs.items():
                    tr.counters["C07.online_checks"] += 1
                    exp = r.cost_per_time if (st == WORKING and not a.absent_step) else 0.0
                    if not r.cost_list or abs(r.cost_list[-1] - exp) > TOL:
                        tr.violate("C07", "C07/charge-differs-from-live-state",
                                   "step %d: %s charged %r, live state at charge time %s, rate %r" % (
                                       snap.step, r.ID, r.cost_list[-1] if r.cost_list else None, st.name, r.cost_per_time), res=r)

    def on_end(self, tr, project):
        check_costs(tr, project)


def check_costs(tr, project, prop="C07"):
    org = project.organization
    total_expected = 0.0
    for groups, WORKING in ((org.team_list, WS.WORKING), (org.workplace_list, FSs.WORKING)):
        for g in groups:
            members = g.worker_list if hasattr(g, "worker_list") else g.facility_list
            for r in members:
                if len(r.cost_list) != len(r.state_record_list):
                    tr.violate(prop, "C07/cost-log-length", "%s: %d cost entries, %d state entries" % (r.ID, len(r.cost_list), len(r.state_record_list)), res=r)
                    continue
                for k, (c, s) in enumerate(zip(r.cost_list, r.state_record_list)):
                    tr.counters["C07.resource_step_checks"] += 1
                    exp = r.cost_per_time if s == WORKING else 0.0
                    total_expected += exp
                    if abs(c - exp) > TOL:
                        tr.violate(prop, "C07/resource-charge",
                                   "%s step %d: charged %r, logged %s, rate %r" % (r.ID, k, c, s.name, r.cost_per_time), res=r, k=k)
                        break
            for k, c in enumerate(g.cost_list):
                tr.counters["C07.group_step_checks"] += 1
                s = sum(r.cost_list[k] for r in members if k < len(r.cost_list))
                if abs(c - s) > TOL:
                    tr.violate(prop, "C07/group-sum", "%s step %d: cost %r, members sum %r" % (g.ID, k, c, s), k=k)
                    break
            for r in members:
                if len(r.cost_list) != len(g.cost_list):
                    tr.violate(prop, "C07/cost-log-length", "%s has %d entries, its group %s has %d" % (r.ID, len(r.cost_list), g.ID, len(g.cost_list)))
    for k, c in enumerate(org.cost_list):
        s = sum(g.cost_list[k] for g in list(org.team_list) + list(org.workplace_list) if k < len(g.cost_list))
        if abs(c - s) > TOL:
            tr.violate(prop, "C07/organization-sum", "organization step %d: cost %r, sum %r" % (k, c, s), k=k)
            break
    for g in list(org.team_list) + list(org.workplace_list):
        if len(g.cost_list) != len(org.cost_list):
            tr.violate(prop, "C07/cost-log-length", "%s has %d entries, organization has %d" % (g.ID, len(g.cost_list), len(org.cost_list)))
    if len(project.cost_list) != len(org.cost_list) or any(abs(a - b) > TOL for a, b in zip(project.cost_list, org.cost_list)):
        tr.violate(prop, "C07/project-differs-from-organization", "project cost list %r != organization %r" % (project.cost_list[:8], org.cost_list[:8]))
    # (floating-point sums in two different orders: the tolerance grows with the size of the total)
    if abs(sum(project.cost_list) - total_expected) > 1e-7 + 1e-10 * abs(total_expected):
        tr.violate(prop, "C07/total", "total project cost %r != sum of rate x WORKING steps %r" % (sum(project.cost_list), total_expected))
    tr.counters["C07.total_checks"] += 1


# =======================================================================================
# C08 (online part)
# =======================================================================================
class MonC08(object):
    prop = "C08"

    def on_phase(self, tr, project, phase, snap):
        if phase != "recorded":
            return
        from .build import all_logs
        want = project.time + 1
        for label, name, lst in all_logs(project):
            tr.counters["C08.length_checks"] += 1
            if len(lst) != want:
                tr.violate("C08", "C08/log-length-at-record",
                           "step %d: %s.%s has %d entries, expected %d" % (snap.step, label, name, len(lst), want))
        ab = snap.absent_step
        for t in project.workflow.task_list:
            tr.counters["C08.entry_checks"] += 1
            st = t.state
            shown = TS.READY if (ab and st == TS.WORKING) else st
            if t.state_record_list and t.state_record_list[-1] != shown:
                tr.violate("C08", "C08/entry-differs-from-live", "step %d: task %s logged %s, live %s" % (snap.step, t.ID, t.state_record_list[-1].name, st.name), task=t)
            if t.remaining_work_amount_record_list and t.remaining_work_amount_record_list[-1] != t.remaining_work_amount:
                tr.violate("C08", "C08/entry-differs-from-live", "step %d: task %s logged remaining %r, live %r" % (snap.step, t.ID, t.remaining_work_amount_record_list[-1], t.remaining_work_amount), task=t)
            if t.allocated_worker_id_record and t.allocated_worker_id_record[-1] != [w.ID for w in t.allocated_worker_list]:
                tr.violate("C08", "C08/entry-differs-from-live", "step %d: task %s worker log %r, live %r" % (snap.step, t.ID, t.allocated_worker_id_record[-1], [w.ID for w in t.allocated_worker_list]), task=t)
            if t.allocated_facility_id_record and t.allocated_facility_id_record[-1] != [f.ID for f in t.allocated_facility_list]:
                tr.violate("C08", "C08/entry-differs-from-live", "step %d: task %s facility log differs from live list" % (snap.step, t.ID), task=t)
        for c in project.product.component_list:
            tr.counters["C08.entry_checks"] += 1
            shown = CS.READY if (ab and c.state == CS.WORKING) else c.state
            if c.state_record_list and c.state_record_list[-1] != shown:
                tr.violate("C08", "C08/entry-differs-from-live", "step %d: component %s logged %s, live %s" % (snap.step, c.ID, c.state_record_list[-1].name, c.state.name))
            pid = c.placed_workplace.ID if c.placed_workplace is not None else None
            if c.placed_workplace_id_record and c.placed_workplace_id_record[-1] != pid:
                tr.violate("C08", "C08/entry-differs-from-live", "step %d: component %s placement logged %r, live %r" % (snap.step, c.ID, c.placed_workplace_id_record[-1], pid))
        for r in all_workers(project) + all_facilities(project):
            tr.counters["C08.entry_checks"] += 1
            A = WS.ABSENCE if isinstance(r, ns.BaseWorker) else FSs.ABSENCE
            shown = A if ab else r.state
            if r.state_record_list and r.state_record_list[-1] != shown:
                tr.violate("C08", "C08/entry-differs-from-live", "step %d: resource %s logged %s, live %s" % (snap.step, r.ID, r.state_record_list[-1].name, r.state.name), res=r)
            if r.assigned_task_id_record and r.assigned_task_id_record[-1] != [t.ID for t in r.assigned_task_list]:
                tr.violate("C08", "C08/entry-differs-from-live", "step %d: resource %s assignment log differs from live list" % (snap.step, r.ID), res=r)
        for wp in project.organization.workplace_list:
            tr.counters["C08.entry_checks"] += 1
            if wp.placed_component_id_record and wp.placed_component_id_record[-1] != [c.ID for c in wp.placed_component_list]:
                tr.violate("C08", "C08/entry-differs-from-live", "step %d: workplace %s content log differs from live list" % (snap.step, wp.ID))


def check_alignment(tr, project, prop="C08", mech="C08/logs-misaligned", context=""):
    """All logs have the same length and it equals project.time."""
    from .build import all_logs
    bad = []
    lens = {}
    for label, name, lst in all_logs(project):
        tr.counters[prop + ".alignment_checks"] += 1
        lens.setdefault(len(lst), []).append("%s.%s" % (label, name))
    if len(lens) > 1 or (lens and list(lens)[0] != project.time):
        summary = {k: v[:4] for k, v in lens.items()}
        tr.violate(prop, mech, "%s: project.time=%r, log lengths %r" % (context, project.time, summary), lengths=summary)
        return False
    return True


# =======================================================================================
# C10 (in-step clauses)
# =======================================================================================
class MonC10(object):
    prop = "C10"

    def __init__(self):
        self.alloc = None

    def on_phase(self, tr, project, phase, snap):
        if phase == "allocated":
            self.alloc = snap
            if snap.absent_step:
                tr.counters["C10.absence_steps"] += 1
                prev = tr.prev_rec
                if any(s == TS.WORKING for s in snap.tstate.values()):
                    tr.counters["C10.absence_steps_with_working_task"] += 1
                for t in snap.aw:
                    pw = set(map(id, prev.aw.get(t, ()))) if prev is not None else set()
                    pf = set(map(id, prev.af.get(t, ()))) if prev is not None else set()
                    if any(id(w) not in pw for w in snap.aw[t]) or any(id(f) not in pf for f in snap.af[t]):
                        tr.violate("C10", "C10/allocation-during-project-absence",
                                   "step %d (project absence): task %s got new resources" % (snap.step, t.ID), task=t)
        elif phase == "performed" and self.alloc is not None:
            a = self.alloc
            if a.absent_step:
                for t in a.rem:
                    d = a.rem[t] - snap.rem[t]
                    tr.counters["C10.absence_task_checks"] += 1
                    if not t.auto_task:
                        if d != 0.0:
                            tr.violate("C10", "C10/progress-during-project-absence",
                                       "step %d (project absence): non-automatic task %s progressed by %r" % (snap.step, t.ID, d), task=t)
                    else:
                        if not tr.auto_flag and d != 0.0:
                            tr.violate("C10", "C10/auto-progress-flag-off",
                                       "step %d (project absence, flag off): automatic task %s progressed by %r" % (snap.step, t.ID, d), task=t)
                        up = tr.last.get("updated")
                        startable = (t.target_component is None and up is not None
                                     and up.tstate.get(t) in (TS.READY, TS.WORKING))
                        if tr.auto_flag and (a.tstate[t] == TS.WORKING or startable):
                            # flag set: a WORKING automatic task - and one that is READY and not bound
                            # to a component (nothing else it could wait for) - progresses at this step
                            tr.counters["C10.auto_progress_checks"] += 1
                            if abs(d - t.work_amount_progress_of_unit_step_time) > TOL:
                                tr.violate("C10", "C10/auto-no-progress-flag-on",
                                           "step %d (project absence, flag on): WORKING automatic task %s progressed by %r" % (snap.step, t.ID, d), task=t)
            else:
                # individually absent resources contribute nothing
                for t in a.rem:
                    if a.tstate[t] != TS.WORKING or t.auto_task:
                        continue
                    absent = [w for w in a.aw[t] if snap.step in w.absence_time_list] + [f for f in a.af[t] if snap.step in f.absence_time_list]
                    if not absent:
                        continue
                    tr.counters["C10.individual_absence_checks"] += 1
                    exp = 0.0
                    if t.need_facility:
                        for i in range(min(len(a.aw[t]), len(a.af[t]))):
                            w, f = a.aw[t][i], a.af[t][i]
                            if snap.step in w.absence_time_list or snap.step in f.absence_time_list:
                                continue
                            exp += skill(w, t.name) * skill(f, t.name)
                    else:
                        for w in a.aw[t]:
                            if snap.step not in w.absence_time_list:
                                exp += skill(w, t.name)
                    d = a.rem[t] - snap.rem[t]
                    if abs(d - exp) > TOL:
                        tr.violate("C10", "C10/absent-resource-contributes",
                                   "step %d: task %s progressed %r, expected %r without absent %s" % (snap.step, t.ID, d, exp, [r.ID for r in absent]), task=t)
        elif phase == "recorded":
            if snap.absent_step:
                for r in all_workers(project) + all_facilities(project):
                    tr.counters["C10.absence_resource_checks"] += 1
                    A = WS.ABSENCE if isinstance(r, ns.BaseWorker) else FSs.ABSENCE
                    if not r.state_record_list or r.state_record_list[-1] != A:
                        tr.violate("C10", "C10/resource-not-logged-absence",
                                   "step %d (project absence): %s logged %s" % (snap.step, r.ID, r.state_record_list[-1].name if r.state_record_list else None), res=r)
                    if not r.cost_list or r.cost_list[-1] != 0.0:
                        tr.violate("C10", "C10/charged-during-project-absence",
                                   "step %d (project absence): %s charged %r" % (snap.step, r.ID, r.cost_list[-1] if r.cost_list else None), res=r)
                for lst, nm in ((project.cost_list, "project"), (project.organization.cost_list, "organization")):
                    if not lst or lst[-1] != 0.0:
                        tr.violate("C10", "C10/charged-during-project-absence", "step %d (project absence): %s cost %r" % (snap.step, nm, lst[-1] if lst else None))
            else:
                for r in all_workers(project) + all_facilities(project):
                    if snap.step in r.absence_time_list:
                        tr.counters["C10.individual_cost_checks"] += 1
                        if r.cost_list and r.cost_list[-1] != 0.0:
                            tr.violate("C10", "C10/absent-resource-charged",
                                       "step %d: individually absent %s charged %r" % (snap.step, r.ID, r.cost_list[-1]), res=r)


# =======================================================================================
# C13
# =======================================================================================
def ancestors(c):
    out, todo = [], list(c.parent_component_list)
    seen = set()
    while todo:
        x = todo.pop()
        if id(x) in seen:
            continue
        seen.add(id(x))
        out.append(x)
        todo.extend(x.parent_component_list)
    return out


def descendants(c):
    out, todo = [], list(c.child_component_list)
    seen = set()
    while todo:
        x = todo.pop()
        if id(x) in seen:
            continue
        seen.add(id(x))
        out.append(x)
        todo.extend(x.child_component_list)
    return out


class MonC13(object):
    prop = "C13"

    def __init__(self):
        self.loc = {}          # component -> last non-None location
        self.moves = {}        # component -> list of move kinds ('own' / 'drag') in this step
        self.recent = []       # placed_workplace writes in this step: (comp, new)
        self.last_kind = {}    # component -> kind of its last move
        self.split = set()     # ids of components of assemblies that were split across workplaces
        self.prev_loc = {}

    def _mark_split(self, obj):
        for x in [obj] + ancestors(obj) + descendants(obj):
            self.split.add(id(x))

    def is_split(self, c):
        """The assembly c belongs to was, or is right now, spread over different places (a *placed* parent
        whose child is at another workplace or nowhere; a child placed while its parent is still nowhere
        is the normal sequential regime and does not count)."""
        if id(c) in self.split:
            return True
        here = c.placed_workplace
        for a in ancestors(c):      # a placed ancestor whose (grand)child is somewhere else / nowhere
            if a.placed_workplace is not None and a.placed_workplace is not here:
                return True
        if here is not None:
            for d in descendants(c):
                if d.placed_workplace is not here:
                    return True
        return False

    def any_split(self, project):
        return bool(self.split) or any(self.is_split(c) for c in project.product.component_list
                                       if c.parent_component_list or c.child_component_list)

    def on_write(self, tr, obj, attr, old, new):
        if attr != "placed_workplace" or not isinstance(obj, ns.BaseComponent):
            return
        if tr.in_init:
            self.loc.pop(obj, None)
            self.last_kind.pop(obj, None)
            self.split.discard(id(obj))
            return
        self.recent.append((obj, new))
        if new is None:
            return
        src = self.loc.get(obj)
        tr.counters["C13.place_writes"] += 1
        if src is new:
            return
        # a move (or first placement) of obj into `new`
        dragged = self._dragged(obj, new)
        kind = "drag" if dragged else "own"
        nested = bool(obj.parent_component_list or obj.child_component_list)
        if nested and not dragged:
            # (a) the component places itself away from an ancestor that lies somewhere else: the assembly is split
            for x in ancestors(obj):
                lx = x.placed_workplace
                if lx is not None and lx is not new:
                    self._mark_split(obj)
                    break
            # (b) the component is placed while a descendant lies at another workplace and is ACTIVE there (one of its
            # tasks READY or WORKING), or lies deeper than a direct child (the library takes only direct children off
            # their workplace's list, __allocate 3-1-1-1): parent and descendant active at the same time - the known
            # area. A direct child whose tasks are all FINISHED and that waits for its parent is the normal
            # sequential regime: the library handles it correctly, an anomaly there is a new defect.
            direct = set(map(id, obj.child_component_list))
            for x in descendants(obj):
                # (where the descendant lay before this move began: the library resets the whole assembly to "no place"
                # first, so the live attribute is None already)
                lx = self.loc.get(x)
                if lx is None or lx is new:
                    continue
                active = any(t.state in (TS.READY, TS.WORKING) for t in x.targeted_task_list)
                if active or id(x) not in direct:
                    self._mark_split(x)
        if nested and dragged:
            # dragged from a place other than where the dragging ancestor came from - the assembly was split already.
            # (An ancestor that comes from NOWHERE and collects its finished parts is the normal sequential regime.)
            for a in ancestors(obj):
                a_from = self.prev_loc.get(a, None)
                if a_from is not None and src is not None and a_from is not src:
                    self._mark_split(obj)
                    break
            # ... or dragged to a place where ANOTHER of its ancestors does not lie (a component with two parents that
            # are placed at different workplaces)
            for a in ancestors(obj):
                a_loc = self.loc.get(a)
                if a_loc is not None and a_loc is not new:
                    self._mark_split(obj)
                    break
        self.prev_loc[obj] = src
        self.loc[obj] = new
        self.moves.setdefault(obj, []).append(kind)
        self.last_kind[obj] = kind
        tr.counters["C13.moves"] += 1
        tr.counters["C13.moves." + kind] += 1
        if src is None:
            tr.counters["C13.first_placements"] += 1
        own_busy = any(t.state == TS.WORKING for t in obj.targeted_task_list)
        if len(self.moves[obj]) > 1:
            ctx = ":with-ancestor-drag" if "drag" in self.moves[obj] else ""
            tr.violate("C13", "C13/moved-twice-in-step" + ctx,
                       "step %s: component %s moved %d times in one step %s (now to %s)" % (tr.step, obj.ID, len(self.moves[obj]), self.moves[obj], new.ID), comp=obj)
        if len(new.input_workplace_list) > 0:
            tr.counters["C13.conveyor_entries"] += 1
            if src is not None and not any(x is src for x in new.input_workplace_list):
                tr.violate("C13", "C13/conveyor-bypass" + (":dragged-by-ancestor" if dragged else ""),
                           "step %s: component %s entered %s from %s which is not one of its input workplaces" % (tr.step, obj.ID, new.ID, src.ID), comp=obj)
        if own_busy:
            tr.violate("C13", "C13/moved-while-working" + (":dragged-by-ancestor" if dragged else ""),
                       "step %s: component %s moved to %s while one of its tasks is WORKING" % (tr.step, obj.ID, new.ID), comp=obj)

    def _dragged(self, obj, new):
        """The write directly follows, in this step, a write of the same value to a strict ancestor."""
        anc = set(map(id, ancestors(obj)))
        for c, v in reversed(self.recent[:-1]):
            if v is new and id(c) in anc:
                return True
            if c is obj:
                break
        return False

    def on_phase(self, tr, project, phase, snap):
        if phase == "initialized":
            self.moves = {}
            self.recent = []
            if tr.prev_rec is None:
                self.loc = {}
            for c, wp in snap.cplace.items():
                if wp is not None:
                    self.loc[c] = wp
            return
        if phase == "recorded":
            self.moves = {}
            self.recent = []
        # a component that reports no place at a quiescent point is nowhere: a later placement
        # comes "from nowhere" (the code's own "set None, then set the new place" happens between
        # two phases and is therefore still seen as one move from the old place)
        for c, wp in snap.cplace.items():
            if wp is None:
                self.loc.pop(c, None)
        if phase in ("allocated", "recorded", "updated"):
            tr.counters["C13.phase_checks"] += 1
            where = {}
            for wp, cs in snap.wpcontent.items():
                for c in cs:
                    where.setdefault(c, []).append(wp)
            for c, wps in where.items():
                if len(wps) > 1:
                    nested = self.is_split(c)
                    tr.violate("C13", "C13/listed-by-two-workplaces" + (":assembly-split" if nested else ""),
                               "%s step %d: component %s listed by %s" % (phase, snap.step, c.ID, [w.ID for w in wps]), comp=c)
            for c, wp in snap.cplace.items():
                listed = where.get(c, [])
                if wp is None and listed:
                    nested = self.is_split(c)
                    tr.violate("C13", "C13/two-way-mismatch" + (":assembly-split" if nested else ""),
                               "%s step %d: component %s reports no place but is listed by %s" % (phase, snap.step, c.ID, [w.ID for w in listed]), comp=c)
                if wp is not None and not any(x is wp for x in listed):
                    nested = self.is_split(c)
                    tr.violate("C13", "C13/two-way-mismatch" + (":assembly-split" if nested else ""),
                               "%s step %d: component %s reports %s but that workplace does not list it" % (phase, snap.step, c.ID, wp.ID), comp=c)
            for wp, cs in snap.wpcontent.items():
                inset = set(map(id, cs))
                top = [c for c in cs if not any(id(a) in inset for a in ancestors(c))]
                used = sum(c.space_size for c in top)
                if cs:
                    tr.counters["C13.capacity_checks"] += 1
                if used > wp.max_space_size + 1e-8:
                    tr.violate("C13", "C13/capacity-exceeded",
                               "%s step %d: workplace %s holds %s (top-most space %r) > capacity %r" % (phase, snap.step, wp.ID, [c.ID for c in cs], used, wp.max_space_size))
        if phase == "updated":
            for c in project.product.component_list:
                if c.parent_component_list:
                    continue
                if c.targeted_task_list and all(t.state == TS.FINISHED for t in c.targeted_task_list):
                    tr.counters["C13.leave_checks"] += 1
                    for x in [c] + descendants(c):
                        if snap.cplace.get(x) is not None and x is c:
                            tr.violate("C13", "C13/finished-top-component-still-placed",
                                       "step %d: all tasks of top-level component %s are FINISHED but it is still placed at %s" % (snap.step, c.ID, snap.cplace[x].ID), comp=c)
        if phase in ("allocated", "performed"):
            for t, fs in snap.af.items():
                if not fs or snap.tstate[t] != TS.WORKING or not t.need_facility:
                    continue
                c = t.target_component
                wp = snap.cplace.get(c) if c is not None else None
                for f in fs:
                    tr.counters["C13.site_checks"] += 1
                    fw = workplace_of(project, f)
                    if fw is not wp:
                        dragged = c is not None and self.last_kind.get(c) == "drag"
                        mech = "C13/site-mismatch" + (":component-dragged-by-ancestor" if dragged else (":assembly-split" if (c is not None and self.is_split(c)) else ""))
                        if wp is None and c is not None and c.parent_component_list:
                            tops = [a for a in ancestors(c) if not a.parent_component_list]
                            if any(a.targeted_task_list and all(x.state == TS.FINISHED for x in a.targeted_task_list) for a in tops):
                                mech = "C13/site-mismatch:removed-with-finished-top-level-ancestor"
                        tr.violate("C13", mech,
                                   "%s step %d: task %s works with facility %s of %s but its component %s is at %s" % (
                                       phase, snap.step, t.ID, f.ID, getattr(fw, "ID", None), getattr(c, "ID", None), getattr(wp, "ID", None)), task=t, comp=c)

    def on_end(self, tr, project):
        """Offline re-check on the ID logs: single location and two-way consistency per step."""
        comps = project.product.component_list
        wps = project.organization.workplace_list
        n = min([len(c.placed_workplace_id_record) for c in comps] + [len(w.placed_component_id_record) for w in wps] or [0])
        for k in range(tr.log_base, n):   # only the part of the logs written under this monitor
            listed = {}
            for w in wps:
                for cid in (w.placed_component_id_record[k] or ()):
                    listed.setdefault(cid, []).append(w.ID)
            for c in comps:
                tr.counters["C13.log_checks"] += 1
                rec = c.placed_workplace_id_record[k]
                ls = listed.get(c.ID, [])
                nested = self.is_split(c)
                if len(ls) > 1:
                    tr.violate("C13", "C13/listed-by-two-workplaces" + (":assembly-split" if nested else ""),
                               "log step %d: component %s listed by %s" % (k, c.ID, ls), comp=c, k=k)
                elif (rec is None) != (not ls) or (rec is not None and ls and ls[0] != rec):
                    tr.violate("C13", "C13/two-way-mismatch" + (":assembly-split" if nested else ""),
                               "log step %d: component %s logged at %r, listed by %r" % (k, c.ID, rec, ls), comp=c, k=k)


# =======================================================================================
# C14
# =======================================================================================
CRANK = {CS.NONE: 0, CS.READY: 1, CS.WORKING: 2, CS.FINISHED: 3}


class MonC14(object):
    prop = "C14"

    def __init__(self):
        self.seen_non_none = set()
        self.seen_finished = set()

    def _relations(self, tr, c, where):
        ts = c.targeted_task_list
        tr.counters["C14.relation_checks"] += 1
        allfin = all(t.state == TS.FINISHED for t in ts)
        if (c.state == CS.FINISHED) != allfin:
            tr.violate("C14", "C14/finished-iff-all-tasks-finished",
                       "%s: component %s is %s, task states %s" % (where, c.ID, c.state.name, [t.state.name for t in ts]), comp=c)
        if any(t.state == TS.WORKING for t in ts) and c.state != CS.WORKING:
            tr.violate("C14", "C14/working-task-nonworking-component",
                       "%s: component %s is %s although a task is WORKING" % (where, c.ID, c.state.name), comp=c)
        if c.state == CS.NONE and any(t.state in (TS.READY, TS.WORKING) for t in ts):
            tr.violate("C14", "C14/none-with-active-task",
                       "%s: component %s is NONE, task states %s" % (where, c.ID, [t.state.name for t in ts]), comp=c)
        if len(set(t.state for t in ts)) > 1:
            tr.counters["C14.mixed_state_checks"] += 1

    def on_write(self, tr, obj, attr, old, new):
        if attr != "state" or not isinstance(obj, ns.BaseComponent):
            return
        if tr.in_init and any(x is obj for x in tr.init_stack) and (new == CS.NONE):
            self.seen_non_none.discard(obj)
            self.seen_finished.discard(obj)
            return
        tr.counters["C14.state_writes"] += 1
        if new == CS.NONE and obj in self.seen_non_none:
            tr.violate("C14", "C14/returned-to-none", "component %s written %s -> NONE" % (obj.ID, old.name), comp=obj)
        if old == CS.FINISHED and new != CS.FINISHED and obj in self.seen_finished:
            tr.violate("C14", "C14/left-finished", "component %s written FINISHED -> %s" % (obj.ID, new.name), comp=obj)

    def on_phase(self, tr, project, phase, snap):
        if phase not in ("updated", "allocated", "recorded"):
            return
        for c in project.product.component_list:
            self._relations(tr, c, "%s step %d" % (phase, snap.step))
            if c.state != CS.NONE:
                self.seen_non_none.add(c)
            elif c in self.seen_non_none:
                tr.violate("C14", "C14/returned-to-none", "%s step %d: component %s is NONE again" % (phase, snap.step, c.ID), comp=c)
            if c.state == CS.FINISHED:
                self.seen_finished.add(c)
            elif c in self.seen_finished:
                tr.violate("C14", "C14/left-finished", "%s step %d: component %s left FINISHED (%s)" % (phase, snap.step, c.ID, c.state.name), comp=c)

    def on_end(self, tr, project):
        for c in project.product.component_list:
            ts = c.targeted_task_list
            n = len(c.state_record_list)
            seen_nn = seen_f = False
            for k in range(tr.log_base, n):
                if any(len(t.state_record_list) <= k for t in ts):
                    break
                tr.counters["C14.log_checks"] += 1
                cs = c.state_record_list[k]
                tst = [t.state_record_list[k] for t in ts]
                if (cs == CS.FINISHED) != all(s == TS.FINISHED for s in tst):
                    tr.violate("C14", "C14/finished-iff-all-tasks-finished", "log step %d: component %s %s, tasks %s" % (k, c.ID, cs.name, [s.name for s in tst]), comp=c, k=k)
                    break
                if any(s == TS.WORKING for s in tst) and cs != CS.WORKING:
                    tr.violate("C14", "C14/working-task-nonworking-component", "log step %d: component %s %s, tasks %s" % (k, c.ID, cs.name, [s.name for s in tst]), comp=c, k=k)
                    break
                if cs == CS.NONE and (seen_nn or any(s in (TS.READY, TS.WORKING) for s in tst)):
                    tr.violate("C14", "C14/none-with-active-task" if not seen_nn else "C14/returned-to-none", "log step %d: component %s NONE, tasks %s" % (k, c.ID, [s.name for s in tst]), comp=c, k=k)
                    break
                if seen_f and cs != CS.FINISHED:
                    tr.violate("C14", "C14/left-finished", "log step %d: component %s %s after FINISHED" % (k, c.ID, cs.name), comp=c, k=k)
                    break
                seen_nn = seen_nn or cs != CS.NONE
                seen_f = seen_f or cs == CS.FINISHED


# =======================================================================================
# C05 (a): status truthfulness, evaluated after every simulate() call
# =======================================================================================
def check_status(tr, project, max_time, steps_recorded, time_before=0):
    P = ns.BaseProjectStatus
    tr.counters["C05.status_checks"] += 1
    allfin = all(t.state == TS.FINISHED for t in project.workflow.task_list)
    if project.status == P.NONE:
        tr.violate("C05", "C05/status-none-after-return", "simulate() returned with status NONE")
    if (project.status == P.FINISHED_SUCCESS) != allfin:
        tr.violate("C05", "C05/success-iff-all-finished",
                   "status %s but task states %s" % (project.status.name, [t.state.name for t in project.workflow.task_list]))
    if project.status == P.FINISHED_FAILURE and project.time < max_time:
        tr.violate("C05", "C05/failure-before-max-time", "FAILURE reported at time %r < max_time %r" % (project.time, max_time))
    if project.time > max(max_time, time_before):
        tr.violate("C05", "C05/simulated-beyond-max-time", "time %r > max_time %r" % (project.time, max_time))
    if steps_recorded is not None and steps_recorded and steps_recorded[-1] >= max_time:
        tr.violate("C05", "C05/simulated-beyond-max-time", "a step at time %r >= max_time %r was simulated" % (steps_recorded[-1], max_time))
