"""Harness-side instrumentation: iteration-order control, attribute-write watchpoints,
initialize() epoch wrappers, the step observer and the Tracer that feeds monitors."""
import collections
import functools

from .common import load

ACTIVE = None          # the Tracer currently receiving events (or None)
_installed = False
_ORDER = {}
_fallback_counter = [0]
_hash_mode = ["id"]


# ---------------------------------------------------------------------------------------
# iteration-order control
# ---------------------------------------------------------------------------------------
def _vf_hash(self):
    h = _ORDER.get(self.ID)
    if h is not None:
        return h
    d = self.__dict__
    h = d.get("_vf_hash")
    if h is None:
        _fallback_counter[0] += 1
        h = 100000 + _fallback_counter[0]
        d["_vf_hash"] = h
    return h


def set_order(order):
    """order: dict ID -> small distinct int.  Unknown IDs get a deterministic fallback
    (creation order of first use)."""
    ns = load()
    _ORDER.clear()
    _ORDER.update(order)
    _fallback_counter[0] = 0
    ns.BaseTask.__hash__ = _vf_hash
    ns.BaseComponent.__hash__ = _vf_hash
    _hash_mode[0] = "id"


def native_hash():
    ns = load()
    ns.BaseTask.__hash__ = object.__hash__
    ns.BaseComponent.__hash__ = object.__hash__
    _hash_mode[0] = "native"


def default_order(spec):
    o = {}
    for i, t in enumerate(spec["tasks"]):
        o[t["id"]] = i
    for i, c in enumerate(spec["comps"]):
        o[c["id"]] = i
    return o


def permuted_order(spec, rng):
    ids = [t["id"] for t in spec["tasks"]]
    perm = list(range(len(ids)))
    rng.shuffle(perm)
    o = {i: p for i, p in zip(ids, perm)}
    cids = [c["id"] for c in spec["comps"]]
    perm = list(range(len(cids)))
    rng.shuffle(perm)
    o.update({i: p for i, p in zip(cids, perm)})
    return o


# ---------------------------------------------------------------------------------------
# watchpoints
# ---------------------------------------------------------------------------------------
_MISSING = object()


class Watch(object):
    """Data descriptor: value lives in the instance __dict__ under '_vf_<name>'; every write is
    reported to the active tracer."""

    def __init__(self, name):
        self.name = name
        self.key = "_vf_" + name

    def __get__(self, obj, cls):
        if obj is None:
            return self
        try:
            return obj.__dict__[self.key]
        except KeyError:
            raise AttributeError(self.name)

    def __set__(self, obj, val):
        d = obj.__dict__
        old = d.get(self.key, _MISSING)
        d[self.key] = val
        tr = ACTIVE
        if tr is not None and old is not _MISSING:
            tr.on_write(obj, self.name, old, val)

    def __delete__(self, obj):
        del obj.__dict__[self.key]


def _wrap_initialize(cls):
    orig = cls.__dict__.get("initialize")
    if orig is None or getattr(orig, "_vf_wrapped", False):
        return

    @functools.wraps(orig)
    def initialize(self, *a, **k):
        tr = ACTIVE
        if tr is None:
            return orig(self, *a, **k)
        tr.in_init += 1
        tr.init_stack.append(self)
        tr.on_init_enter(self, a, k)
        try:
            return orig(self, *a, **k)
        finally:
            tr.init_stack.pop()
            tr.in_init -= 1

    initialize._vf_wrapped = True
    cls.initialize = initialize


def _wrap_placement(ns):
    WP = ns.BaseWorkplace
    for nm in ("set_placed_component", "remove_placed_component"):
        orig = WP.__dict__[nm]
        if getattr(orig, "_vf_wrapped", False):
            continue

        def mk(orig, nm):
            @functools.wraps(orig)
            def f(self, comp, *a, **k):
                tr = ACTIVE
                if tr is not None:
                    tr.on_call(self, nm, comp)
                return orig(self, comp, *a, **k)
            f._vf_wrapped = True
            return f
        setattr(WP, nm, mk(orig, nm))


def install():
    """Install watchpoints, initialize() wrappers and the step observer (idempotent)."""
    global _installed
    ns = load()
    if _installed:
        return ns
    for cls, names in ((ns.BaseTask, ("state", "remaining_work_amount")),
                       (ns.BaseComponent, ("state", "placed_workplace")),
                       (ns.BaseWorker, ("state",)),
                       (ns.BaseFacility, ("state",))):
        for n in names:
            setattr(cls, n, Watch(n))
    for cls in (ns.BaseProject, ns.BaseWorkflow, ns.BaseTask, ns.BaseProduct, ns.BaseComponent,
                ns.BaseOrganization, ns.BaseTeam, ns.BaseWorkplace, ns.BaseWorker, ns.BaseFacility):
        _wrap_initialize(cls)
    _wrap_placement(ns)
    ns.bp.set_verif_step_observer(_observer)
    _installed = True
    return ns


def _observer(project, phase):
    tr = ACTIVE
    if tr is not None:
        tr.on_phase(project, phase)


# ---------------------------------------------------------------------------------------
# snapshots
# ---------------------------------------------------------------------------------------
class Snap(object):
    __slots__ = ("step", "phase", "tstate", "rem", "aw", "af", "wstate", "fstate", "wassigned",
                 "fassigned", "cstate", "cplace", "wpcontent", "absent_step", "pert")

    def __init__(self, project, phase, absent_step):
        self.step = project.time
        self.phase = phase
        self.absent_step = absent_step
        wf = project.workflow
        self.tstate = {t: t.state for t in wf.task_list}
        self.rem = {t: t.remaining_work_amount for t in wf.task_list}
        self.aw = {t: tuple(t.allocated_worker_list) for t in wf.task_list}
        self.af = {t: tuple(t.allocated_facility_list) for t in wf.task_list}
        self.pert = {t: (t.est, t.eft, t.lst, t.lft) for t in wf.task_list}
        self.wstate = {}
        self.wassigned = {}
        for tm in project.organization.team_list:
            for w in tm.worker_list:
                self.wstate[w] = w.state
                self.wassigned[w] = tuple(w.assigned_task_list)
        self.fstate = {}
        self.fassigned = {}
        self.wpcontent = {}
        for wp in project.organization.workplace_list:
            self.wpcontent[wp] = tuple(wp.placed_component_list)
            for f in wp.facility_list:
                self.fstate[f] = f.state
                self.fassigned[f] = tuple(f.assigned_task_list)
        self.cstate = {c: c.state for c in project.product.component_list}
        self.cplace = {c: c.placed_workplace for c in project.product.component_list}


SEGMENT_AFTER = {"initialized": "update", "updated": "allocate", "allocated": "perform",
                 "performed": "record", "recorded": "update"}


class Violation(Exception):
    pass


class Tracer(object):
    """Receives phase notifications and write events, keeps snapshots, dispatches to monitors."""

    def __init__(self, monitors=(), keep_events=False, max_viol=25):
        self.monitors = list(monitors)
        self.in_init = 0
        self.init_stack = []
        self.segment = "idle"
        self.step = None
        self.project = None
        self.absence = ()
        self.auto_flag = False
        self.violations = []
        self.max_viol = max_viol
        self.n_viol = 0
        self.counters = collections.Counter()
        self.phase_counts = collections.Counter()
        self.cur = None
        self.last = {}       # phase -> most recent Snap of that phase
        self.prev_rec = None  # Snap at 'recorded' of the previous step
        self.keep_events = keep_events
        self.events = []
        self.inject = None   # callable(project, phase) that may raise (fault injection)
        self.expected_auto_flag = None   # the CALLER's perform_auto_task_while_absence_time, if it is to be used
                                         # instead of the project attribute read when a run starts
        self.sim_index = 0
        self.state_reset = True
        self.fresh_start = True
        self.log_base = 0
        self.phase_w = [m for m in self.monitors if hasattr(m, "on_phase")]
        self.write_w = [m for m in self.monitors if hasattr(m, "on_write")]
        self.call_w = [m for m in self.monitors if hasattr(m, "on_call")]

    # -- events -------------------------------------------------------------------------
    def on_phase(self, project, phase):
        self.project = project
        self.phase_counts[phase] += 1
        self.step = project.time
        if phase == "initialized":
            self.sim_index += 1
            self.absence = tuple(project.absence_time_list)
            self.auto_flag = bool(project.perform_auto_task_while_absence_time) if self.expected_auto_flag is None else bool(self.expected_auto_flag)
            self.fresh_start = self.state_reset
            if self.state_reset:
                self.prev_rec = None
                self.last = {}
                self.log_base = len(project.cost_list)   # logs kept from earlier runs (log_info=False)
            self.state_reset = False
        absent = project.time in self.absence
        snap = Snap(project, phase, absent)
        self.cur = snap
        for m in self.phase_w:
            m.on_phase(self, project, phase, snap)
        self.last[phase] = snap
        if phase == "recorded":
            self.prev_rec = snap
        self.segment = SEGMENT_AFTER[phase]
        if self.inject is not None:
            self.inject(project, phase)

    def on_init_enter(self, obj, a, k):
        if len(self.init_stack) == 1 and hasattr(obj, "workflow") and hasattr(obj, "organization"):
            state_info = k.get("state_info", a[0] if a else True)
            if state_info:
                self.state_reset = True
            for m in self.monitors:
                if hasattr(m, "on_project_init"):
                    m.on_project_init(self, obj, bool(state_info))

    def on_write(self, obj, attr, old, new):
        if self.keep_events:
            self.events.append((self.step, self.segment, self.in_init, obj, attr, old, new))
        self.counters["writes"] += 1
        for m in self.write_w:
            m.on_write(self, obj, attr, old, new)

    def on_call(self, obj, name, arg):
        if self.keep_events:
            self.events.append((self.step, self.segment, self.in_init, obj, name, arg, None))
        for m in self.call_w:
            m.on_call(self, obj, name, arg)

    # -- verdicts -----------------------------------------------------------------------
    def violate(self, prop, mechanism, msg, **witness):
        self.n_viol += 1
        if len(self.violations) < self.max_viol:
            w = {k: _j(v) for k, v in witness.items()}
            self.violations.append(dict(property=prop, mechanism=mechanism, msg=msg, step=self.step,
                                        segment=self.segment, witness=w))

    def end(self, project):
        for m in self.monitors:
            if hasattr(m, "on_end"):
                m.on_end(self, project)


def _j(v):
    if isinstance(v, (int, float, str, bool)) or v is None:
        return v
    if isinstance(v, (list, tuple, set, frozenset)):
        return [_j(x) for x in v]
    if isinstance(v, dict):
        return {str(k): _j(x) for k, x in v.items()}
    if hasattr(v, "ID"):
        return str(v.ID)
    if hasattr(v, "name") and hasattr(v, "value"):
        return v.name
    return repr(v)


class tracing(object):
    """Context manager: make ``tracer`` the active one."""

    def __init__(self, tracer):
        self.tracer = tracer

    def __enter__(self):
        global ACTIVE
        install()
        self.prev = ACTIVE
        ACTIVE = self.tracer
        return self.tracer

    def __exit__(self, *exc):
        global ACTIVE
        ACTIVE = self.prev
        return False
