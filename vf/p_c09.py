"""C09: results are reproducible and independent of object identity / iteration order / process /
previous runs; no hidden state is left behind."""
import copy
import enum
import gc
import itertools
import json
import os
import subprocess
import sys
import types

from . import gen as G
from . import build as B
from . import instr as I
from .history import Hist
from .runner import rng_for, Result, ns, exc_info
from .common import VERIF_DIR, REPO
from .p_c08 import gen_ops, add_due_times

TS = ns.BaseTaskState


def sim_kwargs(spec):
    """simulate() keyword arguments; defaults are *omitted* so that default-argument objects of
    the library are really used."""
    s = spec["sim"]
    kw = dict(task_priority_rule=ns.TaskPriorityRuleMode(s["rule"]), max_time=s["max_time"])
    if s["absence"]:
        kw["absence_time_list"] = list(s["absence"])
    if s["auto_flag"]:
        kw["perform_auto_task_while_absence_time"] = True
    return kw


def run_dump(spec, order, native=False, share_ids=False):
    import warnings
    I.install()
    if native:
        I.native_hash()
    else:
        I.set_order(order)
    try:
        m = B.build(spec, share_ids=share_ids)
        with warnings.catch_warnings():
            warnings.simplefilter("ignore")
            try:
                m.project.simulate(**sim_kwargs(spec))
            except Exception as e:
                return m, dict(error=exc_info(e)["type"] + "@" + exc_info(e)["where"])
        return m, B.dump(m.project)
    finally:
        if native:
            I.set_order({})


# ---------------------------------------------------------------------------------------
# mutable-default / module-global sanitizer
# ---------------------------------------------------------------------------------------
_baseline = None


class _Val(object):
    """A module global / class attribute looked up again at every snapshot (it may be re-bound, not only mutated)."""

    def __init__(self, owner, name):
        self.owner, self.name = owner, name

    def get(self):
        return vars(self.owner).get(self.name)


def _walk_defaults():
    out = {}
    for mod in ns.modules:
        for name, obj in vars(mod).items():
            if isinstance(obj, types.FunctionType) and obj.__module__ == mod.__name__:
                out["%s.%s" % (mod.__name__, name)] = obj
            elif isinstance(obj, type) and obj.__module__ == mod.__name__:
                for mn, mo in vars(obj).items():
                    if mn == "__hash__":
                        continue   # installed by this harness (iteration-order control)
                    f = mo
                    if isinstance(mo, (staticmethod, classmethod)):
                        f = mo.__func__
                    f = getattr(f, "__wrapped__", f)
                    if isinstance(f, types.FunctionType):
                        out["%s.%s.%s" % (mod.__name__, name, mn)] = f
                    elif isinstance(mo, (list, dict, set, int, float, str, tuple, frozenset)) and not mn.startswith("__") and not mn.startswith("_vf_") \
                            and not isinstance(mo, enum.Enum):
                        # class attributes: state kept there is shared by every instance and every project of the process
                        out["%s.%s.%s (class attribute)" % (mod.__name__, name, mn)] = _Val(obj, mn)
            elif isinstance(obj, (list, dict, set, int, float, str, tuple, frozenset)) and not name.startswith("__") and not isinstance(obj, (bool, enum.Enum)):
                out["%s.%s" % (mod.__name__, name)] = _Val(mod, name)
    return out


def _snap_defaults():
    snap = {}
    for k, f in _walk_defaults().items():
        if isinstance(f, types.FunctionType):
            snap[k] = repr((f.__defaults__, f.__kwdefaults__))
        elif isinstance(f, _Val):
            snap[k] = _stable_repr(f.get())
        else:
            snap[k] = repr(f)
    return snap


def _stable_repr(v):
    """repr without memory addresses (objects are named by class and ID where they have one)."""
    if isinstance(v, dict):
        return "{" + ", ".join(sorted("%s: %s" % (_stable_repr(k), _stable_repr(x)) for k, x in v.items())) + "}"
    if isinstance(v, (set, frozenset)):
        return "{" + ", ".join(sorted(_stable_repr(x) for x in v)) + "}"
    if isinstance(v, (list, tuple)):
        return "[" + ", ".join(_stable_repr(x) for x in v) + "]"
    if isinstance(v, (int, float, str, bool)) or v is None:
        return repr(v)
    return "<%s %s>" % (type(v).__name__, getattr(v, "ID", ""))


def sanitizer_check(res):
    global _baseline
    if _baseline is None:
        _baseline = _snap_defaults()
        return
    now = _snap_defaults()
    res.count("C09.defaults_watched", len(now))
    for k in sorted(set(now) | set(_baseline)):
        if now.get(k) != _baseline.get(k):
            res.violate("C09", "C09/hidden-state:mutated-default:%s" % k.split("model.")[-1],
                        "default/global of %s changed: %s -> %s" % (k, (_baseline.get(k) or "")[:120], (now.get(k) or "")[:120]))
            _baseline[k] = now.get(k)


STATE_PARAMS = {"state", "state_record_list", "cost_list", "assigned_task_list", "assigned_task_id_record",
                "allocated_worker_list", "allocated_worker_id_record", "allocated_facility_list",
                "allocated_facility_id_record", "placed_workplace", "placed_workplace_id_record",
                "placed_component_list", "placed_component_id_record", "est", "eft", "lst", "lft",
                "remaining_work_amount", "remaining_work_amount_record_list", "time", "simulation_mode", "status",
                "additional_task_flag", "actual_work_amount", "error", "critical_path_length",
                "parent_workflow", "parent_product", "product", "organization", "workflow"}


def config_snapshot(project):
    """Every constructor parameter (runtime reflection) that is model *configuration*, not run state:
    a simulation must leave it exactly as it was (values and order of lists)."""
    import inspect
    from .p_c15 import objects_of, norm
    snap = {}
    for label, o in objects_of(project):
        try:
            params = list(inspect.signature(type(o).__init__).parameters)[1:]
        except (TypeError, ValueError):
            continue
        for prm in params:
            if prm in STATE_PARAMS or (label == "project" and prm in ("absence_time_list", "perform_auto_task_while_absence_time")):
                continue
            if hasattr(o, prm) and not callable(getattr(o, prm)):
                snap["%s.%s" % (label, prm)] = norm(getattr(o, prm))
    return snap


# ---------------------------------------------------------------------------------------
def make_case(prop, seed, i, tier):
    rng = rng_for(prop, seed, i)
    big = tier == "thorough"
    if i % 20 == 19:
        specs = []
        for k in range(8):
            specs.append(G.gen_random(rng, G.profile(facility_rich=rng.random() < 0.3, max_time=60)))
        return dict(prop=prop, i=i, kind="fresh-process", specs=specs, hashseed=rng.randrange(1, 10 ** 6))
    r = rng.random()
    if r > 0.93:
        spec = G.gen_scale(rng)        # beyond the usual sizes (long runs, wide fan-in, big teams, ...)
    elif r < 0.25:
        spec = G.shape_chains(rng, 1)[0]
        for t in spec["tasks"]:
            if rng.random() < 0.25:
                t["auto"] = True          # automatic tasks in the middle of chains of all four kinds
                t["rate"] = rng.choice([None, 0.5, 1.0, 2.0])
    else:
        spec = G.gen_random(rng, G.profile(facility_rich=rng.random() < 0.3, max_time=60,
                                           kinds=(G.FS, G.SS, G.FF, G.SF, G.FF, G.SF)))
    add_due_times(rng, spec)
    n = len(spec["tasks"])
    K = 24 if big else 6
    ids = [t["id"] for t in spec["tasks"]]
    cids = [c["id"] for c in spec["comps"]]
    orders = []
    if n <= 4 and (big or n <= 3):
        for perm in itertools.permutations(range(n)):
            o = {i_: p for i_, p in zip(ids, perm)}
            cp = list(range(len(cids)))
            rng.shuffle(cp)
            o.update({c: p for c, p in zip(cids, cp)})
            orders.append(o)
    else:
        for _ in range(K):
            orders.append(I.permuted_order(spec, rng))
    hist = gen_ops(rng, n=rng.randint(1, 3))
    if rng.random() < 0.5:
        hist.append(["insert_abs", sorted(rng.sample(range(0, 12), rng.randint(1, 3)))])
    if rng.random() < 0.3:
        hist.append(["remove_abs"])
    other = G.gen_random(rng, G.profile(max_time=40))
    other["sim"]["absence"] = [] if rng.random() < 0.6 else other["sim"]["absence"]
    ohist = [["sim_default"]] + ([["insert_abs", sorted(rng.sample(range(0, 12), rng.randint(1, 3)))]] if rng.random() < 0.6 else []) + gen_ops(rng, n=1)
    return dict(prop=prop, i=i, kind="model", spec=spec, orders=orders, history=hist, other=other, other_history=ohist)


PERT_KEYS = ("est", "eft", "lst", "lft")


def strip_pert(d):
    """The property claims logs, times, costs and status; the live PERT numbers (est/eft/lst/lft,
    critical path length) are not part of it and are compared separately (counted, not judged)."""
    if not isinstance(d, dict):
        return d
    out = {}
    for k, v in d.items():
        if k == "cpl":
            continue
        if isinstance(v, dict) and k.startswith("T:"):
            v = {kk: vv for kk, vv in v.items() if kk not in PERT_KEYS}
        out[k] = v
    return out


def compare(res, base, d, mech, what):
    res.count("C09.comparisons")
    if d != base and strip_pert(d) == strip_pert(base):
        # only the live PERT numbers (est/eft/lst/lft, critical path length) differ. They are the keys of
        # the TSLACK/EST rules, so this is the same defect one step before it reaches a log (F13): reported,
        # under its own mechanism name.
        res.count("C09.pert_only_differences")
        diff = B.first_diff(base, d)
        res.violate("C09", mech + ":PERT-values-only", "%s: the final PERT values differ from the reference run; first difference %s" % (what, (diff,)), diff=str(diff)[:300])
        return False
    if d != base:
        diff = B.first_diff(base, d)
        res.violate("C09", mech, "%s: result differs from the reference run; first difference %s" % (what, (diff,)), diff=str(diff)[:300])
        return False
    return True


def run_case(case):
    import warnings
    res = Result(case)
    I.install()
    sanitizer_check(res)
    if case["kind"] == "fresh-process":
        specs = case["specs"]
        mine = []
        for s in specs:
            m, d = run_dump(s, I.default_order(s))
            mine.append(d)
        env = dict(os.environ)
        env["PYTHONHASHSEED"] = str(case["hashseed"])
        env["PYTHONPATH"] = REPO + os.pathsep + VERIF_DIR
        pr = subprocess.run([sys.executable, "-m", "vf.dumpspecs"], input=json.dumps(specs), capture_output=True,
                            text=True, env=env, cwd=VERIF_DIR, timeout=600)
        if pr.returncode != 0:
            raise RuntimeError("fresh process failed: " + pr.stderr[-800:])
        theirs = json.loads(pr.stdout.strip().splitlines()[-1])
        res.count("C09.fresh_process_runs", len(specs))
        for k, (a, b) in enumerate(zip(mine, theirs)):
            a = json.loads(json.dumps(a))
            if compare(res, a, b, "C09/differs-in-fresh-process", "spec %d in a fresh interpreter (PYTHONHASHSEED=%s, native hashes)" % (k, case["hashseed"])) is False:
                res["violations"][-1]["witness"]["spec_index"] = k
        res["nontrivial"] = True
        res["source"] = "fresh-process"
        sanitizer_check(res)
        return res
    spec = case["spec"]
    m0, base = run_dump(spec, I.default_order(spec))
    res["source"] = "model"
    if "error" in base:
        res["aborted"] = dict(type=base["error"], where="", msg="")
    # (a) set-iteration orders
    seen_orders = set()
    for o in case["orders"]:
        m, d = run_dump(spec, o)
        seen_orders.add(tuple(t.ID for t in set(m.project.workflow.task_list)))
        res.count("C09.permutation_runs")
        if not compare(res, base, d, "C09/depends-on-set-iteration-order", "hash assignment %s" % sorted(o.items())[:8]):
            break
    res.count("C09.distinct_set_orders", len(seen_orders))
    # (b) native hashes, different addresses
    junk = [object() for _ in range(1000 + 37 * (case["i"] % 11))]
    m, d = run_dump(spec, None, native=True)
    res.count("C09.native_hash_runs")
    compare(res, base, d, "C09/depends-on-object-addresses", "native address hashes after allocating garbage")
    del junk
    # (b') the same model with ID strings shared between the objects and the places that refer to
    # them (main_workplace_id, fixed-ID lists) instead of equal-but-distinct string objects
    m, d = run_dump(spec, I.default_order(spec), share_ids=True)
    res.count("C09.shared_id_string_runs")
    compare(res, base, d, "C09/depends-on-id-string-identity", "ID strings shared instead of equal-but-distinct objects")
    # (f) a simulation leaves the model's configuration untouched (no hidden state in the model itself)
    I.set_order(I.default_order(spec))
    mc = B.build(spec)
    before = config_snapshot(mc.project)
    with warnings.catch_warnings():
        warnings.simplefilter("ignore")
        try:
            mc.project.simulate(**sim_kwargs(spec))
        except Exception:
            pass
    after = config_snapshot(mc.project)
    res.count("C09.configuration_values_compared", len(before))
    for k in sorted(before):
        if before[k] != after.get(k):
            cls_prm = k.split(".", 1)[1]
            res.violate("C09", "C09/hidden-state:simulate-changed-model-configuration:%s" % cls_prm,
                        "simulate() changed the model parameter %s: %r -> %r" % (k, before[k], after.get(k)))
            break
    # (g) the user changes parameters of an already simulated model and simulates again: the result must be
    # that of a fresh model built with the new values (nothing remembered from before the edit)
    if True:
        import random as _random
        from . import edits as E
        er = _random.Random(case["i"] * 7919 + 13)
        I.set_order(I.default_order(spec))
        me = B.build(spec)
        with warnings.catch_warnings():
            warnings.simplefilter("ignore")
            try:
                if case["i"] % 4 == 2:
                    me.project.backward_simulate(**sim_kwargs(spec))    # (the earlier run was a backward one)
                elif case["i"] % 8 == 5:
                    me.project.initialize()                              # (only initialised so far, never run)
                    res.count("C09.edit_after_initialize_only")
                else:
                    me.project.simulate(**sim_kwargs(spec))
                spec2, what = E.edit(er, spec, me, n=er.randint(1, 4))
                me.project.simulate(**sim_kwargs(spec2))
                d_edit = B.dump(me.project)
            except Exception as e:
                d_edit = dict(error=exc_info(e)["type"] + "@" + exc_info(e)["where"])
                spec2, what = None, []
        if spec2 is not None:
            mf, d_fresh = run_dump(spec2, I.default_order(spec2))
            res.count("C09.edit_and_resimulate_runs")
            compare(res, d_fresh, d_edit, "C09/simulate-after-model-edit-differs", "model edited in place (%s) and simulated again vs a fresh model with the same values" % "; ".join(what))
    # (d0) a duplicate of the fresh model made with the copy protocol, template still alive
    import copy as _copy
    import pickle as _pickle
    I.set_order(I.default_order(spec))
    mt = B.build(spec)
    for how in ("deepcopy", "pickle"):
        try:
            qd = _copy.deepcopy(mt.project) if how == "deepcopy" else _pickle.loads(_pickle.dumps(mt.project))
            with warnings.catch_warnings():
                warnings.simplefilter("ignore")
                qd.simulate(**sim_kwargs(spec))
            d = B.dump(qd)
        except Exception as e:
            d = dict(error=exc_info(e)["type"] + "@" + exc_info(e)["where"])
        res.count("C09.copy_runs")
        compare(res, base, d, "C09/copy-of-the-model-differs:" + how, "%s of the freshly built project, simulated while the template is alive" % how)
    # (d) simulate() called again on the same object
    I.set_order(I.default_order(spec))
    with warnings.catch_warnings():
        warnings.simplefilter("ignore")
        try:
            m0.project.simulate(**sim_kwargs(spec))
            d = B.dump(m0.project)
        except Exception as e:
            d = dict(error=exc_info(e)["type"] + "@" + exc_info(e)["where"])
    res.count("C09.resimulate_runs")
    compare(res, base, d, "C09/second-simulate-differs", "second simulate() on the same project")
    # (e) after an arbitrary history on the same object
    h = Hist(spec, order=I.default_order(spec), model=m0)
    # the caller's own absence list object is reused for every call of the history and for the final run
    cal = list(spec["sim"]["absence"])
    cal_before = list(cal)
    if cal and case["i"] % 2 == 0:
        h.shared_absence = cal
    herr = None
    for op in case["history"]:
        herr = h.do(op)
        if herr:
            break
    if h.shared_absence is not None:
        res.count("C09.shared_caller_list_histories")
        if cal != cal_before:
            res.violate("C09", "C09/hidden-state:caller-absence-list-mutated",
                        "the absence list object passed to simulate() was changed by the library during history %s: %s -> %s" % (case["history"], cal_before, cal))
    if herr is None:
        I.set_order(I.default_order(spec))
        with warnings.catch_warnings():
            warnings.simplefilter("ignore")
            try:
                if h.shared_absence is not None:
                    kw_ = sim_kwargs(spec)
                    kw_["absence_time_list"] = cal
                    m0.project.simulate(**kw_)
                else:
                    m0.project.simulate(**sim_kwargs(spec))
                d = B.dump(m0.project)
            except Exception as e:
                d = dict(error=exc_info(e)["type"] + "@" + exc_info(e)["where"])
        res.count("C09.after_history_runs")
        compare(res, base, d, "C09/simulate-after-history-differs", "simulate() after history %s" % case["history"])
    # (e') after a history on ANOTHER project in the same process (hidden global state)
    other = case["other"]
    I.set_order(I.default_order(other))
    mo = B.build(other)
    ho = Hist(other, order=I.default_order(other), model=mo)
    for op in case["other_history"]:
        if op[0] == "sim_default":
            with warnings.catch_warnings():
                warnings.simplefilter("ignore")
                try:
                    mo.project.simulate(**sim_kwargs(other))
                except Exception:
                    break
        elif ho.do(op):
            break
    m, d = run_dump(spec, I.default_order(spec))
    res.count("C09.after_other_project_runs")
    compare(res, base, d, "C09/depends-on-other-project-history", "fresh model simulated after history %s on another project" % case["other_history"])
    sanitizer_check(res)
    # non-trivial: FF/SF edge or two tasks finishing in one step
    nonfs = any(k in (G.FF, G.SF) for t in spec["tasks"] for _, k in t["deps"])
    same = False
    if "error" not in base:
        fin = {}
        for k, v in base.items():
            if k.startswith("T:"):
                s = v["s"]
                f = [j for j, x in enumerate(s) if x == int(TS.FINISHED)]
                if f and f[0] > 0:
                    fin.setdefault(f[0], []).append(k)
        same = any(len(v) >= 2 for v in fin.values())
        if same:
            res.count("C09.models_two_tasks_finish_same_step")
    res["nontrivial"] = bool(nonfs or same)
    return res
