"""C16: saving to JSON and loading restores everything that was saved, at any stage."""
import enum
import inspect
import json
import os
import warnings

from . import gen as G
from . import build as B
from . import instr as I
from .history import Hist, scratch_file
from .runner import rng_for, Result, ns, exc_info
from .p_c09 import strip_pert
from .p_c15 import param_diff, norm, objects_of, saved_fields
from .p_c08 import add_due_times

MODEL_CLASSES = (ns.BaseTask, ns.BaseComponent, ns.BaseWorker, ns.BaseFacility, ns.BaseTeam, ns.BaseWorkplace)
PARAM_CLASSES = [("BaseTask", ns.BaseTask), ("BaseComponent", ns.BaseComponent), ("BaseWorker", ns.BaseWorker),
                 ("BaseFacility", ns.BaseFacility), ("BaseTeam", ns.BaseTeam), ("BaseWorkplace", ns.BaseWorkplace),
                 ("BaseProject", ns.BaseProject)]


def all_params():
    out = []
    for name, cls in PARAM_CLASSES:
        for prm in list(inspect.signature(cls.__init__).parameters)[1:]:
            out.append((name, prm))
    return out


STAGES = ["never", "initialized", "paused", "forward", "backward", "backward_noreverse", "absence_edited", "forward_absence", "history"]


def make_case(prop, seed, i, tier):
    rng = rng_for(prop, seed, i)
    if i % 4 == 3:
        params = all_params()
        cls, prm = params[(i // 4) % len(params)]
        return dict(prop=prop, i=i, kind="param", cls=cls, param=prm, mseed=rng.randrange(10 ** 9))
    if i % 40 == 18:
        # a chain of a thousand and more tasks, never simulated: written, read, compared
        return dict(prop=prop, i=i, kind="stage", spec=G.gen_fs_chain(rng.choice([1000, 1200])), stage="never", k=0, subproject_task=None, edit=[1])
    if i % 20 == 6:
        spec = G.gen_scale(rng)     # beyond the usual sizes
        add_due_times(rng, spec)
        stage = rng.choice(STAGES)
        return dict(prop=prop, i=i, kind="stage", spec=spec, stage=stage, k=rng.choice([1, 3, 8, 130, 300]), subproject_task=None,
                    edit=sorted(rng.sample(range(0, 12), rng.randint(1, 3))))
    spec = G.gen_random(rng, G.profile(facility_rich=rng.random() < 0.4, max_time=50, ensure_worker=0.9))
    add_due_times(rng, spec)
    if rng.random() < 0.12:
        G.add_idle_parts(rng, spec)
    # numeric edge values
    if rng.random() < 0.3:
        for t in spec["tasks"]:
            if rng.random() < 0.3:
                t["due"] = rng.choice([0, -1])
    if rng.random() < 0.5:
        for t in spec["tasks"]:
            t["wkr"], t["fpr"], t["wpr"] = -1, 0, 0
        for tm in spec["teams"]:
            for w in tm["workers"]:
                w["main_wp"] = None
        for wp in spec["wps"]:
            wp["inputs"] = []
    sub = None
    if rng.random() < 0.2:
        sub = rng.randrange(len(spec["tasks"]))
        t = spec["tasks"][sub]
        t["auto"], t["need_facility"], t["component"] = True, False, None
    stage = STAGES[(i // 4 * 3 + i % 4) % len(STAGES)] if rng.random() < 0.8 else rng.choice(STAGES)
    from .p_c08 import gen_ops
    if rng.random() < 0.08:
        spec["init_datetime"] = rng.choice([[2024, 3, 31, 2, 30, 0], [2024, 10, 27, 2, 30, 0], [2023, 3, 26, 2, 0, 0]])
    enc = None
    if rng.random() < 0.12:
        # names in other scripts, and one of the encodings a user may pass to write/read_simple_json
        G.non_ascii_names(rng, spec)
        enc = rng.choice(["utf-8", "ascii", "latin-1", "cp932", "utf-16", "shift_jis"])
    return dict(prop=prop, i=i, kind="stage", spec=spec, stage=stage, encoding=enc, k=rng.choice([0, 1, 2, 3, 5, 8]), subproject_task=sub,
                edit=sorted(rng.sample(range(0, 12), rng.randint(1, 3))), hist=gen_ops(rng, n=rng.randint(2, 4)))


# ---------------------------------------------------------------------------------------
def json_diff(a, b, path=""):
    """First difference value-for-value (0 == 0.0; no tuples in JSON)."""
    if isinstance(a, dict) and isinstance(b, dict):
        for k in sorted(set(a) | set(b)):
            if k not in a or k not in b:
                return path + "/" + k, a.get(k, "<missing>"), b.get(k, "<missing>")
            r = json_diff(a[k], b[k], path + "/" + k)
            if r:
                return r
        return None
    if isinstance(a, list) and isinstance(b, list):
        if len(a) != len(b):
            return path + "/len", len(a), len(b)
        for n, (x, y) in enumerate(zip(a, b)):
            r = json_diff(x, y, path + "/%d" % n)
            if r:
                return r
        return None
    if isinstance(a, bool) != isinstance(b, bool):
        return path, a, b
    if a != b:
        return path, a, b
    return None


def field_of(path, data):
    """'/pDESy/2/task_list/3/lst' -> 'BaseTask.lst' (type read from the innermost typed JSON node)."""
    parts = [x for x in path.split("/") if x]
    node = data
    typ, fld = None, None
    for x in parts:
        if isinstance(node, dict):
            if "type" in node:
                typ, fld = node["type"], x
            node = node.get(x)
        elif isinstance(node, list):
            try:
                node = node[int(x)]
            except (ValueError, IndexError):
                break
        else:
            break
    return "%s.%s" % (typ, fld)


def check_references(res, q):
    """Every cross reference of the restored project is (by identity) a member of the restored
    project's own lists and not an ID string any more."""
    tasks = q.workflow.task_list
    comps = q.product.component_list
    teams = q.organization.team_list
    wps = q.organization.workplace_list
    workers = [w for tm in teams for w in tm.worker_list]
    facs = [f for wp in wps for f in wp.facility_list]

    def member(x, pool):
        return any(x is y for y in pool)

    def chk(owner, attr, val, pool, allow_none=False):
        res.count("C16.reference_checks")
        if val is None and allow_none:
            return
        if isinstance(val, str):
            res.violate("C16", "C16/reference-still-an-id:%s.%s" % (type(owner).__name__, attr),
                        "%s %s: %s is still the ID string %r after read_simple_json" % (type(owner).__name__, owner.ID, attr, val))
        elif not member(val, pool):
            res.violate("C16", "C16/reference-outside-restored-project:%s.%s" % (type(owner).__name__, attr),
                        "%s %s: %s refers to an object that is not in the restored project" % (type(owner).__name__, owner.ID, attr))

    for c in comps:
        for x in c.parent_component_list:
            chk(c, "parent_component_list", x, comps)
        for x in c.child_component_list:
            chk(c, "child_component_list", x, comps)
        for x in c.targeted_task_list:
            chk(c, "targeted_task_list", x, tasks)
        chk(c, "placed_workplace", c.placed_workplace, wps, allow_none=True)
    for t in tasks:
        for lst_name in ("input_task_list", "output_task_list"):
            for item in getattr(t, lst_name):
                if not (isinstance(item, (list, tuple)) and len(item) == 2):
                    res.violate("C16", "C16/reference-malformed:BaseTask.%s" % lst_name, "task %s: %s item %r" % (t.ID, lst_name, item))
                    continue
                chk(t, lst_name, item[0], tasks)
                if not isinstance(item[1], ns.BaseTaskDependency):
                    res.violate("C16", "C16/reference-malformed:BaseTask.%s" % lst_name, "task %s: dependency kind %r is not a BaseTaskDependency" % (t.ID, item[1]))
        for x in t.allocated_team_list:
            chk(t, "allocated_team_list", x, teams)
        for x in t.allocated_workplace_list:
            chk(t, "allocated_workplace_list", x, wps)
        chk(t, "target_component", t.target_component, comps, allow_none=True)
        for x in t.allocated_worker_list:
            chk(t, "allocated_worker_list", x, workers)
        for x in t.allocated_facility_list:
            chk(t, "allocated_facility_list", x, facs)
    for tm in teams:
        for x in tm.targeted_task_list:
            chk(tm, "targeted_task_list", x, tasks)
        chk(tm, "parent_team", tm.parent_team, teams, allow_none=True)
        for w in tm.worker_list:
            for x in w.assigned_task_list:
                chk(w, "assigned_task_list", x, tasks)
    for wp in wps:
        for x in wp.targeted_task_list:
            chk(wp, "targeted_task_list", x, tasks)
        chk(wp, "parent_workplace", wp.parent_workplace, wps, allow_none=True)
        for x in wp.placed_component_list:
            chk(wp, "placed_component_list", x, comps)
        for x in wp.input_workplace_list:
            chk(wp, "input_workplace_list", x, wps)
        for x in wp.output_workplace_list:
            chk(wp, "output_workplace_list", x, wps)
        for f in wp.facility_list:
            for x in f.assigned_task_list:
                chk(f, "assigned_task_list", x, tasks)
    # generic sweep: any attribute holding model objects must hold objects of this project
    pools = dict((id(x), 1) for x in tasks + comps + teams + wps + workers + facs)
    for label, o in objects_of(q)[1:]:
        for k, v in vars(o).items():
            vals = v if isinstance(v, list) else [v]
            for x in vals:
                if isinstance(x, (list, tuple)) and x and isinstance(x[0], MODEL_CLASSES):
                    x = x[0]
                if isinstance(x, MODEL_CLASSES):
                    res.count("C16.generic_reference_checks")
                    if id(x) not in pools:
                        res.violate("C16", "C16/reference-outside-restored-project:%s.%s" % (type(o).__name__, k.replace("_vf_", "")),
                                    "%s: attribute %s holds an object outside the restored project" % (label, k))


_ENC = [None]      # encoding argument of the current case (None: the default)


def _enc_kw():
    return {} if _ENC[0] is None else {"encoding": _ENC[0]}


def _load_json(path):
    with open(path, "r", encoding=_ENC[0] or "utf-8") as fh:
        return json.load(fh)


def save(res, p, tag):
    path = scratch_file(tag)
    try:
        with warnings.catch_warnings():
            warnings.simplefilter("ignore")
            p.write_simple_json(path, **_enc_kw())
    except Exception as e:
        ei = exc_info(e)
        if os.path.exists(path):
            os.remove(path)
        return None, ei
    return path, None


def run_stage(case, res):
    from .common import local_timezone
    tz = local_timezone.DST if case["spec"].get("init_datetime") else None
    with local_timezone(tz):
        if tz:
            res.count("C16.cases_under_a_daylight_saving_time_zone")
        return _run_stage(case, res)


def _run_stage(case, res):
    spec = case["spec"]
    _ENC[0] = case.get("encoding")
    if _ENC[0]:
        res.count("C16.non_ascii_names_with_encoding." + _ENC[0])
    I.install()
    order = I.default_order(spec)
    I.set_order(order)
    ov = None
    if case.get("subproject_task") is not None:
        import datetime
        secs = [60, 600, 3600, 86400, 172800, 90061][case["i"] % 6]
        ov = {case["subproject_task"]: (ns.BaseSubProjectTask, {"unit_timedelta": datetime.timedelta(seconds=secs)})}
        res.count("C16.models_with_subproject_task")
    m = B.build(spec, task_overrides=ov, share_ids=bool(case["i"] % 3 == 0))
    if case.get("subproject_task") is not None and case["i"] % 2 == 1:
        # a *configured* sub-project task (as set_all_attributes_from_json leaves it)
        sub = m.tasks[case["subproject_task"]]
        # set_all_attributes_from_json(path) does not store the path: half of the configured tasks keep file_path None
        sub.file_path = ("sub_%d.json" % case["i"]) if (case["i"] // 4) % 2 == 0 else None
        sub.read_json_file = True
        sub.remove_absence_time_list = bool((case["i"] // 8) % 2 == 0)
        sub.default_work_amount = float(1 + case["i"] % 7)
        res.count("C16.configured_subproject_tasks")
    h = Hist(spec, order=order, model=m)
    st = case["stage"]
    ops = {"never": [], "initialized": [["init"]], "paused": [["pause", case["k"]]], "forward": [["sim"]],
           "backward": [["backward", True, True]], "backward_noreverse": [["backward", False, False]],
           "absence_edited": [["sim"], ["insert_abs", case["edit"]]], "forward_absence": [["sim"], ["remove_abs"]],
           # any history of 2-4 operations (runs, pauses, resumes, appended runs, backward runs, reversals, reloads)
           "history": case.get("hist") or [["sim"], ["backward", True, True], ["sim_keeplog"]]}[st]
    for op in ops:
        e = h.do(op)
        if e is not None:
            res["aborted"] = e
            return
    p = h.p
    res.count("C16.stage." + st)
    if st != "never" and p.workflow.task_list:
        # numeric edge values in the saved STATE (the quantifier names 0, 0.0, -1): the calculated times of a task may
        # legitimately be exactly -1.0 or 0.0 (a FINISHED task upstream of an overshooting FF/SF successor drifts through
        # -1.0) - values that coincide with "not calculated yet" markers. PERT fields are recalculated at the start of
        # every step, so the continuation of original and restored project is not affected.
        import random as _random
        r3 = _random.Random("edge/%s/%s/%s" % (case["i"], case.get("k"), len(p.workflow.task_list)))
        if r3.random() < 0.12:
            t_ = r3.choice(p.workflow.task_list)
            which = r3.randrange(5)
            if which == 0:
                t_.lst = t_.lft = -1.0
            elif which == 1:
                t_.est = t_.eft = t_.lst = t_.lft = -1.0
            elif which == 2:
                t_.lst = t_.lft = 0.0
            elif which == 3:
                t_.est = t_.eft = -1.0
            else:
                t_.lst, t_.lft = -1, -1
            res.count("C16.edge_values_in_calculated_times")
    live = any(t.allocated_worker_list for t in p.workflow.task_list) or any(c.placed_workplace is not None for c in p.product.component_list)
    path1, e = save(res, p, "a")
    res.count("C16.writes")
    if e is not None:
        sub = ":subproject-task" if case.get("subproject_task") is not None and "subproject" in e["where"] else ""
        res.violate("C16", "C16/write-raises:%s:%s%s" % (e["type"], e["where"], sub),
                    "write_simple_json at stage %s raised %s: %s (%s)" % (st, e["type"], e["msg"], e["where"]))
        return
    path2 = None
    try:
        q = ns.BaseProject()
        try:
            with warnings.catch_warnings():
                warnings.simplefilter("ignore")
                q.read_simple_json(path1, **_enc_kw())
        except Exception as ex:
            e = exc_info(ex)
            res.violate("C16", "C16/read-raises:%s:%s" % (e["type"], e["where"]), "read_simple_json at stage %s raised %s: %s" % (st, e["type"], e["msg"]))
            return
        res.count("C16.reads")
        path2, e = save(res, q, "b")
        if e is not None:
            res.violate("C16", "C16/rewrite-raises:%s:%s" % (e["type"], e["where"]), "write_simple_json of the restored project raised %s: %s" % (e["type"], e["msg"]))
            return
        j1, j2 = _load_json(path1), _load_json(path2)
        res.count("C16.roundtrip_comparisons")
        d = json_diff(j1, j2)
        if d:
            res.violate("C16", "C16/roundtrip-differs:%s" % field_of(d[0], j1),
                        "stage %s: JSON of the restored project differs at %s: %r -> %r" % (st, d[0], d[1], d[2]), path=d[0])
        check_references(res, q)
        a0, b0 = strip_pert(B.dump(p, live=False)), strip_pert(B.dump(q, live=False))
        res.count("C16.restored_log_comparisons")
        if a0 != b0:
            df = B.first_diff(a0, b0)
            res.violate("C16", "C16/restored-logs-differ-from-original",
                        "stage %s: the restored logs differ from the written project's at %s (%r vs %r)" % (st, df[0], df[1], df[2]))
        pd, wrong = param_diff(p, q, saved_fields(j1))
        res.count("C16.restored_parameter_comparisons")
        for cls, prm in sorted(wrong):
            res.violate("C16", "C16/saved-parameter-restored-differently:%s.%s" % (cls, prm),
                        "stage %s: %s.%s is part of the saved format but the restored object's value differs from the original's" % (st, cls, prm))
        if pd or wrong:
            res.count("C16.resim_skipped_unsaved_settings")
            for cls, prm in sorted(pd):
                res.count("C16.lost.%s.%s" % (cls, prm))
        elif st == "paused":
            # continue both the original and the restored project from the pause: same result
            I.set_order(order)
            h1 = Hist(spec, order=order, model=m)
            e1 = h1.do(["resume"])
            h2 = Hist(spec, order=order, model=m)
            h2.p = q
            e2 = h2.do(["resume"])
            res.count("C16.resumes_after_load")
            if (e1 is None) != (e2 is None):
                res.violate("C16", "C16/continuation-differs:%s" % ((e2 or e1)["type"]), "stage paused: continuing the original gave %s, continuing the restored project gave %s" % (e1 and e1["msg"], e2 and e2["msg"]))
            elif e1 is None:
                a, b = strip_pert(B.dump(p)), strip_pert(B.dump(q))
                if a != b:
                    df = B.first_diff(a, b)
                    res.violate("C16", "C16/continuation-differs", "stage paused: the restored project continues differently at %s (%r vs %r)" % (df[0], df[1], df[2]))
        elif st not in ("backward", "backward_noreverse"):
            # re-simulate both (simulate() re-initialises): same result
            I.set_order(order)
            e1 = Hist(spec, order=order, model=m).do(["sim"])
            h2 = Hist(spec, order=order, model=m)
            h2.p = q
            e2 = h2.do(["sim"])
            res.count("C16.resimulations")
            if (e1 is None) != (e2 is None):
                res.violate("C16", "C16/resimulation-differs", "stage %s: original %s, restored %s" % (st, e1, e2))
            elif e1 is None:
                a, b = strip_pert(B.dump(p)), strip_pert(B.dump(q))
                if a != b:
                    df = B.first_diff(a, b)
                    res.violate("C16", "C16/resimulation-differs", "stage %s: restored project re-simulates differently at %s (%r vs %r)" % (st, df[0], df[1], df[2]))
        later_reads_and_writes(case, res, h, p, q, path1, j1, st)
    finally:
        for x in (path1, path2):
            if x and os.path.exists(x):
                os.remove(x)
    res["nontrivial"] = bool(st != "never" and live)


def later_reads_and_writes(case, res, h, p, q, path1, j1, st):
    """(a) the same file read a second time, after the first restored project was used and changed,
    gives the same project again; (b) the same objects written a second time, after their logs were
    edited, give a file from which exactly their present content is restored."""
    import random
    rng = random.Random(case["i"] * 7919 + 13)
    # -- (a)
    try:
        with warnings.catch_warnings():
            warnings.simplefilter("ignore")
            if q.time > 0 and rng.random() < 0.6:
                q.insert_absence_time_list([rng.randrange(0, q.time)])
            elif q.time > 0 and rng.random() < 0.5:
                q.reverse_log_information()
            else:
                q.absence_time_list.append(97)
            q.cost_list.append(123.0)
            for tm in q.organization.team_list:
                for w in tm.worker_list:
                    w.workamount_skill_mean_map["_changed_"] = 9.0
                    w.cost_list.append(5.0)
            for t in q.workflow.task_list:
                t.state_record_list.append(ns.BaseTaskState.FINISHED)
            q3 = ns.BaseProject()
            q3.read_simple_json(path1, **_enc_kw())
        path3, e = save(res, q3, "c")
        if e is None:
            try:
                j3 = _load_json(path3)
            finally:
                os.remove(path3)
            res.count("C16.second_reads_of_same_file")
            d = json_diff(j1, j3)
            if d:
                res.violate("C16", "C16/second-read-of-same-file-differs:%s" % field_of(d[0], j1),
                            "stage %s: the file read a second time (after the first restored project was changed) restores a different project at %s: %r -> %r" % (st, d[0], d[1], d[2]))
    except Exception as ex:
        e = exc_info(ex)
        res.violate("C16", "C16/second-read-raises:%s:%s" % (e["type"], e["where"]), "second read of the same file raised %s: %s" % (e["type"], e["msg"]))
    # -- (b)
    h.p = p
    if p.time > 0:
        r = rng.random()
        if r < 0.45:
            op = ["insert_abs", sorted(set(rng.sample(range(0, p.time + 1), min(p.time, rng.randint(1, 2)))))]
        elif r < 0.75:
            op = ["reverse"]
        else:
            op = ["remove_abs"]
        if h.do(op) is not None:
            return
        res.count("C16.second_write_after." + op[0])
    else:
        res.count("C16.second_write_after.nothing")
    path4, e = save(res, p, "d")
    if e is not None:
        res.violate("C16", "C16/write-raises:%s:%s:second-write" % (e["type"], e["where"]), "second write_simple_json raised %s: %s" % (e["type"], e["msg"]))
        return
    try:
        q4 = ns.BaseProject()
        try:
            with warnings.catch_warnings():
                warnings.simplefilter("ignore")
                q4.read_simple_json(path4, **_enc_kw())
        except Exception as ex:
            e = exc_info(ex)
            res.violate("C16", "C16/read-raises:%s:%s:second-write" % (e["type"], e["where"]), "read of the second file raised %s: %s" % (e["type"], e["msg"]))
            return
        res.count("C16.second_writes")
        a, b = strip_pert(B.dump(p, live=False)), strip_pert(B.dump(q4, live=False))
        if a != b:
            df = B.first_diff(a, b)
            res.violate("C16", "C16/restored-logs-differ-from-original:second-write",
                        "stage %s: after a second write (following %s) the restored logs differ from the written project's at %s (%r vs %r)" % (
                            st, res["counters"] and [k for k in res["counters"] if k.startswith("C16.second_write_after.")], df[0], df[1], df[2]))
    finally:
        if os.path.exists(path4):
            os.remove(path4)


# ---------------------------------------------------------------------------------------
# parameter coverage
# ---------------------------------------------------------------------------------------
def perturb(rng, model, cls_name, prm):
    """Pick an object of the class and return (object, new value) or None if not perturbable."""
    p = model.project
    pool = {"BaseTask": p.workflow.task_list, "BaseComponent": p.product.component_list,
            "BaseWorker": [w for tm in p.organization.team_list for w in tm.worker_list],
            "BaseFacility": [f for wp in p.organization.workplace_list for f in wp.facility_list],
            "BaseTeam": p.organization.team_list, "BaseWorkplace": p.organization.workplace_list,
            "BaseProject": [p]}[cls_name]
    pool = [o for o in pool if hasattr(o, prm)]
    if not pool:
        return None
    o = rng.choice(pool)
    v = getattr(o, prm)
    wps = p.organization.workplace_list
    if prm in ("input_workplace_list", "output_workplace_list"):
        others = [w for w in wps if w is not o and not any(x is w for x in v)]
        if not others:
            return None
        return o, ("append_workplace", rng.choice(others))
    if prm == "main_workplace_id":
        if not wps:
            return None
        return o, rng.choice(wps).ID
    if prm in ("fixing_allocating_worker_id_list",):
        ws = [w.ID for tm in p.organization.team_list for w in tm.worker_list]
        return o, [rng.choice(ws)]
    if prm in ("fixing_allocating_facility_id_list",):
        fs = [f.ID for wp in wps for f in wp.facility_list]
        return (o, [rng.choice(fs)]) if fs else None
    if isinstance(v, bool):
        return o, (not v)
    if isinstance(v, enum.Enum):
        members = [x for x in type(v) if x != v]
        return o, rng.choice(members)
    if isinstance(v, (int, float)):
        return o, (v * 2 + 1 if prm not in ("default_progress",) else (0.5 if v != 0.5 else 0.25))
    if isinstance(v, dict):
        nv = dict(v)
        if nv and all(isinstance(x, (int, float)) for x in nv.values()):
            k = rng.choice(sorted(nv))
            nv[k] = nv[k] * 2 + 0.5
        else:
            names = [t.name for t in p.workflow.task_list]
            nv[rng.choice(names)] = 1.5
        return o, nv
    if isinstance(v, list) and prm == "absence_time_list":
        return o, sorted(set(v) | {rng.randrange(0, 6)})
    return None


def apply(o, prm, nv):
    if isinstance(nv, tuple) and nv and nv[0] == "append_workplace":
        if prm == "input_workplace_list":
            o.append_input_workplace(nv[1])
        else:
            nv[1].append_input_workplace(o)
    else:
        setattr(o, prm, nv)


def run_param(case, res):
    import random
    rng = random.Random(case["mseed"])
    cls_name, prm = case["cls"], case["param"]
    I.install()
    relevant = False
    survived = None
    tried = 0
    res.count("C16.param_cases")
    for attempt in range(14):
        spec = G.gen_random(rng, G.profile(facility_rich=rng.random() < 0.6, max_time=40, ensure_worker=0.95, min_tasks=3))
        order = I.default_order(spec)
        I.set_order(order)
        m0 = B.build(spec)
        try:
            B.run(m0.project, spec)
        except Exception:
            continue
        ref = strip_pert(B.dump(m0.project))
        prng = random.Random(rng.randrange(10 ** 9))
        st = prng.getstate()
        I.set_order(order)
        m1 = B.build(spec)
        pt = perturb(prng, m1, cls_name, prm)
        if pt is None:
            continue
        tried += 1
        o, nv = pt
        try:
            apply(o, prm, nv)
            B.run(m1.project, spec)
            d = strip_pert(B.dump(m1.project))
        except Exception:
            continue
        if d != ref:
            relevant = True
        # survival of the perturbed value through save/load (on a never-simulated project)
        I.set_order(order)
        m2 = B.build(spec)
        prng.setstate(st)
        o2, nv2 = perturb(prng, m2, cls_name, prm)
        apply(o2, prm, nv2)
        path, e = save(res, m2.project, "p")
        if e is not None:
            break
        try:
            q = ns.BaseProject()
            q.read_simple_json(path)
        except Exception:
            os.remove(path)
            break
        os.remove(path)
        lost = (cls_name, prm) in param_diff(m2.project, q)
        survived = (not lost) if survived is None else (survived and not lost)
        if relevant:
            break
    res.count("C16.param_models_tried", tried)
    key = "%s.%s" % (cls_name, prm)
    if tried == 0:
        res.count("C16.param_not_perturbable")
        res["extra"] = {"params_not_perturbable": {key: 1}}
        return
    if relevant:
        res.count("C16.param_observed_relevant")
        res["extra"] = {"params_observed_relevant": {key: 1}}
        res["nontrivial"] = True
        if survived is False:
            res.violate("C16", "C16/unsaved-parameter:%s" % key,
                        "constructor parameter %s changes simulation results but does not survive write_simple_json/read_simple_json" % key)
    else:
        res["extra"] = {"params_not_observed_relevant": {key: 1}}


def run_case(case):
    res = Result(case)
    _ENC[0] = None
    res["source"] = case["kind"]
    if case["kind"] == "param":
        run_param(case, res)
    else:
        run_stage(case, res)
    return res
