"""Worker process: runs cases i = j, j+W, j+2W, ... < N of one property and writes JSON lines."""
import faulthandler
import json
import os
import signal
import sys
import time


class CaseTimeout(BaseException):      # (not an Exception: the checks' own handlers around simulate() must not swallow it)
    """One case ran longer than the per-case watchdog allows (wall clock: inconclusive, never a verdict)."""


def _on_alarm(signum, frame):
    raise CaseTimeout("case exceeded its wall-clock limit")


def main(argv):
    prop, tier, seed, j, W, N, out, deadline_s = argv[0], argv[1], int(argv[2]), int(argv[3]), int(argv[4]), int(argv[5]), argv[6], float(argv[7])
    faulthandler.enable()
    faulthandler.dump_traceback_later(deadline_s * 3 + 120, exit=True)
    sys.path.insert(0, os.path.dirname(os.path.dirname(os.path.abspath(__file__))))
    from vf import registry
    from vf.common import load
    ns = load()
    mod = registry.module(prop)
    from vf import anchors
    anchors.start()
    t0 = time.time()
    done = 0
    samples = []
    with open(out, "w") as fh:
        fh.write(json.dumps(dict(kind="hello", repo=os.path.dirname(os.path.dirname(os.path.dirname(os.path.abspath(ns.bp.__file__)))), pid=os.getpid())) + "\n")
        for i in range(j, N, W):
            if time.time() - t0 > deadline_s:
                fh.write(json.dumps(dict(kind="deadline", at=i)) + "\n")
                break
            case = mod.make_case(prop, seed, i, tier)
            try:
                # per-case watchdog: a case that does not come back (e.g. a model the harness built wrongly, or a
                # non-terminating loop in the code under test) costs this case only, not the worker
                signal.signal(signal.SIGALRM, _on_alarm)
                signal.setitimer(signal.ITIMER_REAL, float(os.environ.get("VERIF_CASE_LIMIT", "120" if tier == "quick" else "400")))
                try:
                    res = mod.run_case(case)
                finally:
                    signal.setitimer(signal.ITIMER_REAL, 0)
            except (Exception, CaseTimeout) as e:  # harness error / watchdog: never a verdict
                import traceback
                res = dict(i=i, harness_error=traceback.format_exc()[-1500:], violations=[], counters={}, nontrivial=False,
                           aborted=None, hash="?")
            res["kind"] = "case"
            if res.get("violations"):
                res["case"] = case
            elif len(samples) < 2 and (res.get("nontrivial") or i < W):
                samples.append(1)
                res["sample"] = case
            fh.write(json.dumps(res, default=str) + "\n")
            done += 1
        fh.write(json.dumps(dict(kind="anchors", lines=anchors.executed())) + "\n")
        fh.write(json.dumps(dict(kind="bye", done=done, wall=time.time() - t0)) + "\n")


if __name__ == "__main__":
    main(sys.argv[1:])
