"""C12: PERT/CPM values equal an independent critical-path computation at every update."""
import functools

from . import gen as G
from . import build as B
from . import instr as I
from .runner import rng_for, forward, Result, ns
from .common import TOL

DEP = ns.BaseTaskDependency


def oracle(tasks, t):
    """Textbook forward/backward pass over remaining work (FS-only, acyclic)."""
    ids = set(map(id, tasks))
    preds = {x: [p for p, d in x.input_task_list if id(p) in ids] for x in tasks}
    succs = {x: [s for s, d in x.output_task_list if id(s) in ids] for x in tasks}
    # topological order without recursion (chains of a thousand and more tasks)
    order = []
    indeg = {x: len(preds[x]) for x in tasks}
    ready = [x for x in tasks if indeg[x] == 0]
    while ready:
        x = ready.pop()
        order.append(x)
        for s_ in succs[x]:
            indeg[s_] -= 1
            if indeg[s_] == 0:
                ready.append(s_)
    if len(order) != len(tasks):
        raise ValueError("cyclic network handed to the oracle")
    est, eft = {}, {}
    for x in order:
        est[x] = max([t] + [eft[p] for p in preds[x]])
        eft[x] = est[x] + x.remaining_work_amount
    cpl = max(eft.values()) if eft else 0.0
    lst, lft = {}, {}
    for x in reversed(order):
        lft[x] = min([lst[s] for s in succs[x]]) if succs[x] else cpl
        lst[x] = lft[x] - x.remaining_work_amount
    return est, eft, lst, lft, cpl


def fs_only(tasks):
    """All links are finish-to-start. A link to a task that is not (any more) in the workflow is
    not part of the network: the oracle ignores it, the code under test must not be confused by it."""
    for x in tasks:
        for p, d in x.input_task_list:
            if d != DEP.FS:
                return False
        for s, d in x.output_task_list:
            if d != DEP.FS:
                return False
    return True


class PertChecker(object):
    def __init__(self, res):
        self.res = res
        self.prev_cpl = {}

    def check(self, wf, t, where):
        tasks = list(wf.task_list)
        if not tasks or not fs_only(tasks):
            self.res.count("C12.skipped_non_fs")
            return
        est, eft, lst, lft, cpl = oracle(tasks, t)
        self.res.count("C12.updates")
        if t > 0:
            self.res.count("C12.updates_t>0")
        pc = self.prev_cpl.get(id(wf))
        if pc is not None and abs(pc - cpl) > TOL and t > 0:
            self.res.count("C12.updates_after_cpl_change")
        self.prev_cpl[id(wf)] = cpl
        bad = []
        if abs(wf.critical_path_length - cpl) > TOL:
            bad.append(("critical_path_length", None, wf.critical_path_length, cpl))
        zero_slack = False
        for x in tasks:
            for nm, got, exp in (("est", x.est, est[x]), ("eft", x.eft, eft[x]), ("lst", x.lst, lst[x]), ("lft", x.lft, lft[x])):
                if abs(got - exp) > TOL:
                    bad.append((nm, x.ID, got, exp))
            if (x.lst - x.est) < -TOL:
                bad.append(("negative-slack", x.ID, x.lst - x.est, 0))
            if abs(x.lst - x.est) <= TOL:
                zero_slack = True
        if not zero_slack:
            bad.append(("no-zero-slack-task", None, None, None))
        if bad and len(self.res["violations"]) < 10:
            fields = sorted(set(b[0] for b in bad))
            late = "lst" in fields or "lft" in fields or "negative-slack" in fields or "no-zero-slack-task" in fields
            early = "est" in fields or "eft" in fields or "critical_path_length" in fields
            mech = "C12/mismatch:" + ("forward-pass" if early else "backward-pass")
            self.res.violate("C12", mech, "%s: update_PERT_data(%r) differs from the critical-path oracle in %s; first: %s" % (
                where, t, fields, bad[:4]), t=t, bad=[list(map(str, b)) for b in bad[:8]])


class MonPert(object):
    """The values as they stand when the update of a step is over (observer phase 'updated'), whether or not
    update_PERT_data was called in that update."""

    def __init__(self, chk):
        self.chk = chk

    def on_phase(self, tr, project, phase, snap):
        if phase == "updated":
            self.chk.res.count("C12.updated_phase_checks")
            self.chk.check(project.workflow, project.time, "at the end of the update of step %d" % project.time)


_state = {"installed": False, "checker": None}


def install_wrapper():
    if _state["installed"]:
        return
    orig = ns.BaseWorkflow.update_PERT_data

    @functools.wraps(orig)
    def update_PERT_data(self, time, *a, **k):
        r = orig(self, time, *a, **k)
        chk = _state["checker"]
        if chk is not None:
            chk.check(self, time, "simulate")
        return r

    ns.BaseWorkflow.update_PERT_data = update_PERT_data
    _state["installed"] = True


def gen_float_residue(rng):
    """FS-only networks whose path sums leave float residues (0.5 - 0.4 - 0.1 < 0): zero-work heads and
    milestones, work amounts from {0.1 .. 0.7}, several chains of different hop counts between the same
    end points, so that tiny negative or tiny positive lst/lft values occur and are revisited."""
    n_chain = rng.randint(2, 4)
    tasks = [G._simple_task(0, rng.choice([0.0, 0.0, 0.1]), [])]
    ends = []
    for c in range(n_chain):
        prev = 0
        for h in range(rng.randint(1, 4)):
            k = len(tasks)
            tasks.append(G._simple_task(k, rng.choice([0.1, 0.2, 0.3, 0.4, 0.5, 0.7, 0.0]), [[prev, G.FS]]))
            prev = k
        ends.append(prev)
    if rng.random() < 0.6:
        k = len(tasks)
        tasks.append(G._simple_task(k, rng.choice([0.0, 0.1, 0.3]), [[e, G.FS] for e in ends]))
    workers = [G._worker(0, k, {"t%d" % k: 1.0}) for k in range(len(tasks))]
    order = None
    if rng.random() < 0.5:
        order = list(range(len(tasks)))
        rng.shuffle(order)
    return dict(tasks=tasks, comps=[], wps=[], teams=[dict(name="team0", id="TM0", targets=list(range(len(tasks))), workers=workers)],
                sim=dict(rule=rng.randrange(9), absence=[], auto_flag=False, max_time=40), task_order=order)


def _make_case(prop, seed, i, tier):
    rng = rng_for(prop, seed, i)
    big = tier == "thorough"
    if i % 6 == 4:
        return dict(prop=prop, i=i, kind="sim", spec=gen_float_residue(rng), family="float-residue")
    if i % 12 == 7:
        # pause, edit the absence steps of the paused logs (the clock moves), resume
        spec = G.gen_fs(rng, max_tasks=12 if big else 9)
        spec["sim"]["absence"] = sorted(rng.sample(range(0, 10), rng.randint(1, 4)))
        return dict(prop=prop, i=i, kind="pause-edit-resume", spec=spec, k=rng.choice([2, 3, 4, 5, 6, 8]),
                    edit=rng.choice(["remove", "insert", "none"]), ins=sorted(rng.sample(range(0, 8), rng.randint(1, 2))))
    if i % 30 == 13:
        # beyond the usual sizes, simulated: long runs, wide fan-in, 30 and more tasks (FS links only)
        spec = G.gen_scale(rng, rng.choice(["long", "wide", "one_component", "many_resources", "numeric_ids"]), kinds=(G.FS,))
        return dict(prop=prop, i=i, kind="sim", spec=spec, family="scale:" + spec["scale"])
    if i % 3 == 2:
        spec = G.gen_fs(rng, max_tasks=12 if big else 9)
        r_ = rng.random()
        if r_ < 0.08:
            for t in spec["tasks"]:
                t["work"] = t["work"] * rng.choice([1000.0, 3000.0])     # schedules of tens of thousands of time units
        elif r_ < 0.12:
            spec = G.gen_fs_chain(rng.choice([300, 1100, 1500]), work=rng.choice([1.0, 2.5]))   # a very long chain (no simulation)
        ops = []
        t = 0
        for _ in range(rng.randint(2, 8)):
            muts = []
            for k in range(len(spec["tasks"])):
                if rng.random() < 0.4:
                    muts.append([k, rng.choice(["zero", "half", "minus1", "minus0.3"])])
            t += rng.choice([0, 1, 1, 2, 3])
            struct = []
            if rng.random() < 0.35:
                # the network itself changes between two updates: a new FS link, a new task, a task dropped
                for _s in range(rng.randint(1, 2)):
                    r_ = rng.random()
                    if r_ < 0.5:
                        struct.append(["edge", rng.random(), rng.random()])
                    elif r_ < 0.85:
                        struct.append(["newtask", rng.random(), rng.choice([0.0, 0.5, 1.0, 2.0, 4.0]), rng.random() < 0.5])
                    else:
                        struct.append(["setwork", rng.random(), rng.choice([0.5, 1.0, 3.0, 6.0])])
            ops.append(dict(muts=muts, t=t, struct=struct))
        return dict(prop=prop, i=i, kind="standalone", spec=spec, ops=ops)
    spec = G.gen_fs(rng, max_tasks=12 if big else 9)
    if i % 6 == 1:
        # history: backward_simulate (helper tasks for due times come and go), then a forward run
        for t in spec["tasks"]:
            if rng.random() < 0.7:
                t["due"] = rng.choice([0, 3, 5, 5, 10, 20])
        return dict(prop=prop, i=i, kind="after-backward", spec=spec, due=rng.random() < 0.8, reverse=rng.random() < 0.5)
    return dict(prop=prop, i=i, kind="sim", spec=spec)


def run_case(case):
    res = Result(case)
    I.install()
    install_wrapper()
    spec = case["spec"]
    chk = PertChecker(res)
    res["source"] = case["kind"]
    if case["kind"] == "after-backward":
        from .history import Hist
        I.set_order(I.default_order(spec))
        _state["checker"] = chk
        try:
            h = Hist(spec)
            e = h.do(["backward", case["due"], case["reverse"]])
            res.count("C12.backward_runs")
            if e is None:
                e = h.do(["sim"])
            if e is not None:
                res["aborted"] = e
        finally:
            _state["checker"] = None
    elif case["kind"] == "pause-edit-resume":
        from .history import Hist
        I.set_order(I.default_order(spec))
        tr = I.Tracer([MonPert(chk)])
        _state["checker"] = chk
        try:
            h = Hist(spec, tracer=tr)
            e = h.do(["pause", case["k"]])
            if e is None and case["edit"] == "remove":
                e = h.do(["remove_abs"])
            elif e is None and case["edit"] == "insert":
                e = h.do(["insert_abs", [x for x in case["ins"] if x <= h.p.time]])
            if e is None:
                res.count("C12.resumes_after_edit." + case["edit"])
                e = h.do(["resume"])
            if e is not None:
                res["aborted"] = e
        finally:
            _state["checker"] = None
        res.absorb(tr, props=("C12",))
    elif case["kind"] == "sim":
        _state["checker"] = chk
        try:
            m, tr, err = forward(spec, lambda started: [MonPert(chk)])
        finally:
            _state["checker"] = None
        res.absorb(tr, props=("C12",))
        if err is not None:
            res["aborted"] = err
        elif case["i"] % 4 == 0:
            # the model is edited in place (work amounts, new FS links) and simulated again on the same objects
            import random as _random
            er = _random.Random(case["i"] * 131 + 5)
            n = len(m.tasks)
            for _e in range(er.randint(1, 3)):
                if er.random() < 0.5 and n >= 2:
                    i_ = er.randrange(1, n)
                    j_ = er.randrange(0, i_)
                    if not any(p is m.tasks[j_] for p, d in m.tasks[i_].input_task_list):
                        m.tasks[i_].append_input_task(m.tasks[j_])
                else:
                    m.tasks[er.randrange(n)].default_work_amount = er.choice([0.0, 0.5, 1.0, 2.0, 5.0])
            _state["checker"] = chk
            try:
                from .runner import resimulate
                tr2, err2 = resimulate(m, spec, lambda started: [])
            finally:
                _state["checker"] = None
            res.count("C12.sim_runs_after_model_edit")
            if err2 is not None:
                res["aborted"] = err2
    else:
        I.set_order(I.default_order(spec))
        m = B.build(spec)
        wf = m.project.workflow
        _state["checker"] = chk
        try:
            wf.initialize()
            for op in case["ops"]:
                for k, how in op["muts"]:
                    x = m.tasks[k]
                    r = x.remaining_work_amount
                    if how == "zero":
                        r = 0.0
                    elif how == "half":
                        r = r / 2.0
                    elif how == "minus1":
                        r = max(0.0, r - 1.0)
                    else:
                        r = max(0.0, r - 0.3)
                    x.remaining_work_amount = r
                for st in op.get("struct", ()):
                    n = len(m.tasks)
                    if st[0] == "edge" and n >= 2:
                        i_ = 1 + int(st[1] * (n - 1))
                        j_ = int(st[2] * i_)
                        if not any(p is m.tasks[j_] for p, d in m.tasks[i_].input_task_list):
                            m.tasks[i_].append_input_task(m.tasks[j_])     # default: finish-to-start
                            res.count("C12.structure_edits.edge")
                    elif st[0] == "newtask":
                        j_ = int(st[1] * n)
                        nt = ns.BaseTask("t%d" % n, ID="T%d" % n, default_work_amount=st[2])
                        nt.initialize()
                        if st[3]:
                            nt.append_input_task(m.tasks[j_])
                        else:
                            m.tasks[j_].append_input_task(nt)
                            # keep the index order topological for later "edge" edits: swap positions in m.tasks only
                        wf.append_child_task(nt)
                        if st[3]:
                            m.tasks.append(nt)
                        else:
                            m.tasks.insert(j_, nt)
                        res.count("C12.structure_edits.newtask")
                    elif st[0] == "setwork":
                        x = m.tasks[int(st[1] * n)]
                        x.remaining_work_amount = st[2]
                        res.count("C12.structure_edits.setwork")
                wf.update_PERT_data(op["t"])
        finally:
            _state["checker"] = None
    res["nontrivial"] = res["counters"].get("C12.updates_after_cpl_change", 0) > 0
    return res


def make_case(prop, seed, i, tier):
    case = _make_case(prop, seed, i, tier)
    # numbers off every decimal grid for 8 % of the cases (a random stream of its own: the other cases stay as they were)
    import random
    r2 = random.Random("offgrid/%s/%s/%d" % (prop, seed, i))
    if r2.random() < 0.08 and isinstance(case.get("spec"), dict) and case.get("family") != "float-residue" and not case["spec"].get("scale", "").startswith("fs_chain"):
        G.off_grid(r2, case["spec"])
        case["family"] = (case.get("family") or "") + "+offgrid"
    return case
