"""Shared case-running helpers used by the per-property modules."""
import random
import sys
import traceback
import warnings

from .common import load
from . import build as B
from . import instr as I
from . import monitors as M

ns = load()


def rng_for(prop, seed, i, salt=""):
    return random.Random("%s:%d:%d:%s" % (prop, seed, i, salt))


def exc_info(e):
    tb = traceback.extract_tb(e.__traceback__)
    frames = [(f.filename.split("/pDESy/")[-1], f.name, f.lineno) for f in tb if "/pDESy/" in f.filename]
    inner = frames[-1] if frames else ("?", "?", 0)
    return dict(type=type(e).__name__, msg=str(e)[:200], where="%s:%s" % (inner[0], inner[1]),
                stack=["%s:%s" % (f[0], f[1]) for f in frames[-6:]])


class Result(dict):
    """JSON-able result of one case."""

    def __init__(self, case):
        dict.__init__(self)
        self["i"] = case.get("i")
        self["violations"] = []
        self["counters"] = {}
        self["nontrivial"] = False
        self["aborted"] = None
        self["hash"] = B.canon_hash({k: v for k, v in case.items() if k not in ("i",)})

    def absorb(self, tr, props=None):
        for v in tr.violations:
            if props is None or v["property"] in props:
                self["violations"].append(v)
        for k, v in tr.counters.items():
            self["counters"][k] = self["counters"].get(k, 0) + v
        for k, v in tr.phase_counts.items():
            kk = "phase." + k
            self["counters"][kk] = self["counters"].get(kk, 0) + v

    def count(self, key, n=1):
        self["counters"][key] = self["counters"].get(key, 0) + n

    def violate(self, prop, mechanism, msg, **w):
        self["violations"].append(dict(property=prop, mechanism=mechanism, msg=msg, witness={k: I._j(v) for k, v in w.items()}))


def forward(spec, make_monitors, order=None, sim_kw=None, keep_events=False, pre=None):
    """Build the model, run one forward simulation under the given monitors.
    Returns (model, tracer, error-info-or-None)."""
    I.install()
    I.set_order(order or I.default_order(spec))
    m = B.build(spec)
    if pre is not None:
        pre(m)
    started = M.StartedSnap()
    mons = [started] + list(make_monitors(started))
    tr = I.Tracer(mons, keep_events=keep_events)
    err = None
    with I.tracing(tr):
        try:
            B.run(m.project, spec, **(sim_kw or {}))
        except Exception as e:  # an exception out of simulate() is a witness for C05(d)/C13 only
            err = exc_info(e)
        if err is None:
            tr.end(m.project)
    return m, tr, err


def resimulate(m, spec, make_monitors, sim_kw=None):
    """simulate() called again on an already simulated model, under fresh monitors."""
    started = M.StartedSnap()
    mons = [started] + list(make_monitors(started))
    tr = I.Tracer(mons)
    err = None
    with I.tracing(tr):
        try:
            B.run(m.project, spec, **(sim_kw or {}))
        except Exception as e:
            err = exc_info(e)
        if err is None:
            tr.end(m.project)
    return tr, err


def simulate(project, spec, tr=None, **kw):
    """project.simulate under an (optional) tracer; returns error info or None."""
    try:
        if tr is not None:
            with I.tracing(tr):
                B.run(project, spec, **kw)
        else:
            B.run(project, spec, **kw)
    except Exception as e:
        return exc_info(e)
    return None


def quiet(fn, *a, **k):
    with warnings.catch_warnings():
        warnings.simplefilter("ignore")
        return fn(*a, **k)
