"""Environment bootstrap: import the *working tree* of pDESy (never the installed copy)."""
import os
import sys

VERIF_DIR = os.path.dirname(os.path.dirname(os.path.abspath(__file__)))
REPO = os.environ.get("VERIF_REPO", "/repo")
TOL = 1e-9

_loaded = None


class local_timezone(object):
    """Run a block under another process time zone (POSIX TZ rule, no tz database needed), e.g. one with daylight saving."""
    DST = "CET-1CEST,M3.5.0,M10.5.0/3"

    def __init__(self, tz):
        self.tz = tz

    def __enter__(self):
        import os
        import time
        self.old = os.environ.get("TZ")
        if self.tz:
            os.environ["TZ"] = self.tz
            time.tzset()
        return self

    def __exit__(self, *exc):
        import os
        import time
        if self.tz:
            if self.old is None:
                os.environ.pop("TZ", None)
            else:
                os.environ["TZ"] = self.old
            time.tzset()
        return False


def load():
    """Import pDESy from REPO with the hook enabled; returns a namespace object."""
    global _loaded
    if _loaded is not None:
        return _loaded
    os.environ["PDESY_VERIF"] = "1"
    os.environ.setdefault("MPLBACKEND", "Agg")
    if REPO in sys.path:
        sys.path.remove(REPO)
    sys.path.insert(0, REPO)
    import pDESy  # noqa

    real = os.path.realpath(pDESy.__file__)
    if not real.startswith(os.path.realpath(REPO) + os.sep):
        raise RuntimeError("pDESy imported from %s, not from %s" % (real, REPO))

    class NS:
        pass

    ns = NS()
    from pDESy.model import base_project as bp
    from pDESy.model import base_workflow as bw
    from pDESy.model import base_task as bt
    from pDESy.model import base_component as bc
    from pDESy.model import base_product as bpr
    from pDESy.model import base_worker as bwk
    from pDESy.model import base_facility as bf
    from pDESy.model import base_team as btm
    from pDESy.model import base_workplace as bwp
    from pDESy.model import base_organization as bo
    from pDESy.model import base_priority_rule as pr
    from pDESy.model import base_subproject_task as bst

    ns.bp, ns.bw, ns.bt, ns.bc, ns.bpr, ns.bwk, ns.bf = bp, bw, bt, bc, bpr, bwk, bf
    ns.btm, ns.bwp, ns.bo, ns.pr, ns.bst = btm, bwp, bo, pr, bst
    ns.modules = [bp, bw, bt, bc, bpr, bwk, bf, btm, bwp, bo, pr, bst]
    ns.BaseProject = bp.BaseProject
    ns.BaseProjectStatus = bp.BaseProjectStatus
    ns.SimulationMode = bp.SimulationMode
    ns.BaseWorkflow = bw.BaseWorkflow
    ns.BaseTask = bt.BaseTask
    ns.BaseTaskState = bt.BaseTaskState
    ns.BaseTaskDependency = bt.BaseTaskDependency
    ns.BaseComponent = bc.BaseComponent
    ns.BaseComponentState = bc.BaseComponentState
    ns.BaseProduct = bpr.BaseProduct
    ns.BaseWorker = bwk.BaseWorker
    ns.BaseWorkerState = bwk.BaseWorkerState
    ns.BaseFacility = bf.BaseFacility
    ns.BaseFacilityState = bf.BaseFacilityState
    ns.BaseTeam = btm.BaseTeam
    ns.BaseWorkplace = bwp.BaseWorkplace
    ns.BaseOrganization = bo.BaseOrganization
    ns.BaseSubProjectTask = bst.BaseSubProjectTask
    ns.TaskPriorityRuleMode = pr.TaskPriorityRuleMode
    ns.ResourcePriorityRuleMode = pr.ResourcePriorityRuleMode
    ns.WorkplacePriorityRuleMode = pr.WorkplacePriorityRuleMode
    if not getattr(bp, "_VERIF_ON", False) or not hasattr(bp, "set_verif_step_observer"):
        raise RuntimeError("verification hook missing or disabled in %s" % bp.__file__)
    _loaded = ns
    return ns
