"""Environment bootstrap: import the *working tree* of pDESy (never the installed copy)."""
import os
import sys

VERIF_DIR = os.path.dirname(os.path.dirname(os.path.abspath(__file__)))
REPO = os.environ.get("VERIF_REPO", "/repo")
TOL = 1e-9

_loaded = None


class local_timezone(object):
    """Run a block under another process time zone (POSIX TZ rule, no tz database needed), e.g. one with daylight saving."""
    DST = "CET-1CEST,M3.5.0,M10.5.0/3"

    def __init__(self, tz):
        self.tz = tz

    def __enter__(self):
        import os
        import time
        self.old = os.environ.get("TZ")
        if self.tz:
            os.environ["TZ"] = self.tz
            time.tzset()
        return self

    def __exit__(self, *exc):
        import os
        import time
        if self.tz:
            if self.old is None:
                os.environ.pop("TZ", None)
            else:
                os.environ["TZ"] = self.old
            time.tzset()
        return False


def load():
    """Import pDESy from REPO with the hook enabled; returns a namespace object."""
    global _loaded
    if _loaded is not None:
        return _loaded
    os.environ["PDESY_VERIF"] = "1"
    os.environ.setdefault("MPLBACKEND", "Agg")
    if REPO in sys.path:
        sys.path.remove(REPO)
    sys.path.insert(0, REPO)
    import pDESy  # noqa

    real = os.path.realpath(pDESy.__file__)
    if not real.startswith(os.path.realpath(REPO) + os.sep):
        raise RuntimeError("pDESy imported from %s, not from %s" % (real, REPO))

    class NS:
        pass

    ns = NS()
    from pDESy.model import base_project as bp
    from pDESy.model import base_workflow as bw
    from pDESy.model import base_task as bt
    from pDESy.model import base_component as bc
    from pDESy.model import base_product as bpr
    from pDESy.model import base_worker as bwk
    from pDESy.model import base_facility as bf
    from pDESy.model import base_team as btm
    from pDESy.model import base_workplace as bwp
    from pDESy.model import base_organization as bo
    from pDESy.model import base_priority_rule as pr
    from pDESy.model import base_subproject_task as bst

    ns.bp, ns.bw, ns.bt, ns.bc, ns.bpr, ns.bwk, ns.bf = bp, bw, bt, bc, bpr, bwk, bf
    ns.btm, ns.bwp, ns.bo, ns.pr, ns.bst = btm, bwp, bo, pr, bst
    ns.modules = [bp, bw, bt, bc, bpr, bwk, bf, btm, bwp, bo, pr, bst]
    ns.BaseProject = bp.BaseProject
    ns.BaseProjectStatus = bp.BaseProjectStatus
    ns.SimulationMode = bp.SimulationMode
    ns.BaseWorkflow = bw.BaseWorkflow
    ns.BaseTask = bt.BaseTask
    ns.BaseTaskState = bt.BaseTaskState
    ns.BaseTaskDependency = bt.BaseTaskDependency
    ns.BaseComponent = bc.BaseComponent
    ns.BaseComponentState = bc.BaseComponentState
    ns.BaseProduct = bpr.BaseProduct
    ns.BaseWorker = bwk.BaseWorker
    ns.BaseWorkerState = bwk.BaseWorkerState
    ns.BaseFacility = bf.BaseFacility
    ns.BaseFacilityState = bf.BaseFacilityState
    ns.BaseTeam = btm.BaseTeam
    ns.BaseWorkplace = bwp.BaseWorkplace
    ns.BaseOrganization = bo.BaseOrganization
    ns.BaseSubProjectTask = bst.BaseSubProjectTask
    ns.TaskPriorityRuleMode = pr.TaskPriorityRuleMode
    ns.ResourcePriorityRuleMode = pr.ResourcePriorityRuleMode
    ns.WorkplacePriorityRuleMode = pr.WorkplacePriorityRuleMode
    if not getattr(bp, "_VERIF_ON", False) or not hasattr(bp, "set_verif_step_observer"):
        raise RuntimeError("verification hook missing or disabled in %s" % bp.__file__)
    _loaded = ns
    return ns


def rule_zone():
    """A tzinfo with daylight-saving time written by hand (no tz database in the sandbox): UTC-5, UTC-4 from the
    second Sunday of March 2:00 to the first Sunday of November 2:00 (the USTimeZone example of the datetime docs)."""
    import datetime as _dt
    ZERO, HOUR = _dt.timedelta(0), _dt.timedelta(hours=1)

    def first_sunday_on_or_after(dt):
        days = 6 - dt.weekday()
        return dt + _dt.timedelta(days) if days else dt

    class RuleZone(_dt.tzinfo):
        def __repr__(self):
            return "RuleZone(UTC-5/-4)"

        def tzname(self, dt):
            return "EDT" if self.dst(dt) else "EST"

        def utcoffset(self, dt):
            return _dt.timedelta(hours=-5) + self.dst(dt)

        def _range(self, year):
            return (first_sunday_on_or_after(_dt.datetime(year, 3, 8, 2)), first_sunday_on_or_after(_dt.datetime(year, 11, 1, 2)))

        def dst(self, dt):
            if dt is None:
                return ZERO
            start, end = self._range(dt.year)
            dt = dt.replace(tzinfo=None)
            if start + HOUR <= dt < end - HOUR:
                return HOUR
            if end - HOUR <= dt < end:
                return ZERO if dt.fold else HOUR
            if start <= dt < start + HOUR:
                return HOUR if dt.fold else ZERO
            return ZERO

        def fromutc(self, dt):
            start, end = self._range(dt.year)
            start, end = start.replace(tzinfo=self), end.replace(tzinfo=self)
            std = dt + _dt.timedelta(hours=-5)
            dstt = std + HOUR
            if end <= dstt < end + HOUR:
                return std.replace(fold=1)
            if std < start or dstt >= end:
                return std
            if start <= std < end - HOUR:
                return dstt
            return std

    return RuleZone()
