"""Model-spec generators. A spec is a JSON-able dict; build.py turns it into real pDESy objects.

All randomness comes from the ``random.Random`` passed in (pure function of the seed).
Dependency kinds: 0=FS 1=SS 2=FF 3=SF  (values of BaseTaskDependency).
"""
import copy
import itertools
import math

FS, SS, FF, SF = 0, 1, 2, 3
KIND_NAME = {0: "FS", 1: "SS", 2: "FF", 3: "SF"}

WORKS = [0.0, 0.5, 1.0, 1.0, 2.0, 2.0, 2.5, 3.0, 5.0, 7.3, 0.3]
PROGRESS = [0.0] * 8 + [0.25, 0.5, 1.0]
SKILLS = [0.0, 0.1, 0.5, 1.0, 1.0, 1.0, 2.0]
COSTS = [0.0, 1.0, 1.0, 2.5]

DEFAULT_PROFILE = dict(
    min_tasks=1,
    max_tasks=8,
    kinds=(FS, SS, SF, FF),
    p_edge=(0.15, 0.5),
    p_auto=0.15,
    comps=True,
    nested=True,
    facilities=True,
    facility_rich=False,
    res_absence=True,
    p_res_absence=0.25,
    proj_absence=True,
    fixed_lists=True,
    solo=True,
    ensure_worker=0.7,   # probability that each non-auto task is given one eligible worker
    max_time=80,
    ties=0.3,            # probability of a "many ties" model
    two_parents=0.05,
)


def profile(**kw):
    p = dict(DEFAULT_PROFILE)
    p.update(kw)
    return p


def _absence(rng, horizon=14, maxn=3):
    n = rng.randint(1, maxn)
    out = sorted(rng.sample(range(0, horizon), n))
    r = rng.random()
    if r < 0.25 and len(out) >= 2:
        rng.shuffle(out)                  # a user's list need not be in ascending order ...
    elif r < 0.30:
        out.append(rng.choice(out))       # ... nor free of repetitions
    return out


def gen_random(rng, prof=None):
    p = prof or DEFAULT_PROFILE
    # a small share of LARGE models: many tasks / resources, long chains and wide fan-in, big and tiny numbers,
    # runs of hundreds of steps, late and many absence steps, two-digit numbers inside the ID strings
    big = rng.random() < p.get("large", 0.025)
    n = rng.randint(p["min_tasks"], p["max_tasks"])
    if big:
        n = rng.randint(max(p["min_tasks"], 12), 36)
    ties = rng.random() < p["ties"]
    works = [1.0, 2.0] if ties else WORKS
    skills = [1.0, 1.0, 0.0] if ties else SKILLS
    costs = [1.0] if ties else COSTS
    if big and not ties:
        works = WORKS + [12.0, 20.0, 33.3, 50.0, 120.0] + ([1500.0] if rng.random() < 0.15 else [])
        skills = SKILLS + [0.01, 7.5]
        costs = COSTS + [1234.5678, 0.001, 99.99]
    dens = rng.uniform(*p["p_edge"])
    if big:
        dens *= 0.25
    frich = p["facility_rich"]
    tasks = []
    for i in range(n):
        deps = []
        for j in range(i):
            if rng.random() < dens:
                deps.append([j, rng.choice(p["kinds"])])
        if big and i and not any(d[0] == i - 1 for d in deps) and rng.random() < 0.55:
            deps.append([i - 1, rng.choice(p["kinds"])])        # long chains
        if big and i == n - 1 and rng.random() < 0.5:
            for j in range(max(0, i - 14), i):                   # wide fan-in at the end
                if not any(d[0] == j for d in deps):
                    deps.append([j, rng.choice(p["kinds"])])
        tasks.append(dict(
            name="t%d" % i, id="T%d" % i,
            work=rng.choice(works), progress=rng.choice(PROGRESS),
            auto=rng.random() < p["p_auto"], need_facility=False, deps=deps, component=None,
            fixed_workers=None, fixed_facilities=None,
            wkr=rng.choice([-1, 0, 1, 2]), fpr=rng.choice([-1, 0, 1, 2]), wpr=rng.choice([0, 1]),
            due=None, rate=None,
        ))
    # --- product
    ncomp = 0
    if p["comps"]:
        ncomp = rng.randint(1, 4) if frich else rng.randint(0, 4)
        if big:
            ncomp = rng.randint(3, 12)
    comps = [dict(name="c%d" % k, id="C%d" % k, space=rng.choice([0.5, 1.0, 1.0, 2.0]), children=[])
             for k in range(ncomp)]
    if p["nested"]:
        for k in range(1, ncomp):
            if rng.random() < 0.4:
                par = rng.randrange(0, k)
                comps[par]["children"].append(k)
                if rng.random() < p["two_parents"] and k >= 2:
                    par2 = rng.randrange(0, k)
                    if par2 != par:
                        comps[par2]["children"].append(k)
    for t in tasks:
        if ncomp and rng.random() < (0.85 if frich else 0.6):
            t["component"] = rng.randrange(ncomp)
            if big and t["auto"] and rng.random() < 0.85:
                t["component"] = None     # (large models: few component-bound automatic tasks, so that many complete)
    # --- workplaces / facilities
    nwp = 0
    if p["facilities"] and ncomp:
        nwp = rng.randint(1, 3) if frich else rng.randint(0, 3)
        if big:
            nwp = rng.randint(2, 6)
    wps = []
    for k in range(nwp):
        facs = []
        for f in range(rng.randint(1, 3) if not big else rng.randint(2, 12)):
            facs.append(dict(
                name="f%d_%d" % (k, f), id="F%d_%d" % (k, f), skills={}, cost=rng.choice(costs),
                solo=p["solo"] and rng.random() < 0.2,
                absence=(_absence(rng) if not big else _absence(rng, horizon=250, maxn=10)) if p["res_absence"] and rng.random() < p["p_res_absence"] else []))
        wps.append(dict(name="wp%d" % k, id="WP%d" % k, max_space=rng.choice([1.0, 1.5, 2.0, 3.0] + ([6.0, 12.0] if big else [])),
                        inputs=[], targets=[], facilities=facs))
    for k in range(1, nwp):
        if rng.random() < 0.35:
            wps[k]["inputs"].append(rng.randrange(0, k))
            if rng.random() < 0.2:
                wps[k]["ctor_inputs"] = True      # link given to the constructor (one-sided)
    for i, t in enumerate(tasks):
        if nwp and t["component"] is not None and not t["auto"] and rng.random() < ((0.9 if frich else 0.5) if not big else 0.3):
            t["need_facility"] = True
        if nwp and t["component"] is not None and (t["need_facility"] or rng.random() < 0.3):
            for k in range(nwp):
                if rng.random() < (0.85 if frich else 0.7):
                    wps[k]["targets"].append(i)
            # facility skills are drawn independently of workplace targeting
            for k in range(nwp):
                for f in wps[k]["facilities"]:
                    if rng.random() < (0.85 if frich else 0.6):
                        f["skills"][t["name"]] = rng.choice(skills)
    # --- teams / workers
    nteam = rng.randint(1, 3) if not big else rng.randint(2, 6)
    teams = []
    for k in range(nteam):
        workers = []
        for w in range(rng.randint(1, 4) if not big else rng.randint(2, 12)):
            workers.append(dict(
                name="w%d_%d" % (k, w), id="W%d_%d" % (k, w), skills={}, fskills={},
                cost=rng.choice(costs), solo=p["solo"] and rng.random() < 0.2,
                absence=(_absence(rng) if not big else _absence(rng, horizon=250, maxn=10)) if p["res_absence"] and rng.random() < p["p_res_absence"] else [],
                main_wp=("WP%d" % rng.randrange(nwp)) if nwp and rng.random() < 0.4 else None))
        teams.append(dict(name="team%d" % k, id="TM%d" % k, targets=[], workers=workers))
    for i, t in enumerate(tasks):
        for k in range(nteam):
            if rng.random() < 0.65:
                teams[k]["targets"].append(i)
        # worker skills are drawn independently of team targeting
        for tm in teams:
            for w in tm["workers"]:
                if rng.random() < 0.55:
                    w["skills"][t["name"]] = rng.choice(skills)
    for tm in teams:
        for w in tm["workers"]:
            for wp in wps:
                for f in wp["facilities"]:
                    if rng.random() < (0.9 if frich else 0.75):
                        w["fskills"][f["name"]] = rng.choice([1.0, 1.0, 1.0, 0.0])
    # give most tasks one eligible worker, so that a good share of models can complete
    for i, t in enumerate(tasks):
        if t["auto"] or rng.random() >= (p["ensure_worker"] if not big else max(p["ensure_worker"], 0.96)):
            continue
        k = rng.randrange(nteam)
        w = rng.choice(teams[k]["workers"])
        if i not in teams[k]["targets"]:
            teams[k]["targets"].append(i)
        if w["skills"].get(t["name"], 0.0) <= 0.0:
            w["skills"][t["name"]] = rng.choice([0.5, 1.0, 1.0, 2.0]) if not ties else 1.0
        if t["need_facility"]:
            k2 = rng.randrange(nwp)
            f = rng.choice(wps[k2]["facilities"])
            if i not in wps[k2]["targets"]:
                wps[k2]["targets"].append(i)
            if f["skills"].get(t["name"], 0.0) <= 0.0:
                f["skills"][t["name"]] = 1.0
            w["fskills"][f["name"]] = 1.0
    # --- unit rate of automatic tasks (work_amount_progress_of_unit_step_time)
    for t in tasks:
        if t["auto"] and rng.random() < 0.35:
            t["rate"] = rng.choice([0.5, 2.0, 0.3])
    # --- fixed-ID lists (may name ineligible resources)
    if p["fixed_lists"]:
        all_w = [w["id"] for tm in teams for w in tm["workers"]]
        all_f = [f["id"] for wp in wps for f in wp["facilities"]]
        for t in tasks:
            if not t["auto"] and rng.random() < (0.15 if not big else 0.03):
                t["fixed_workers"] = sorted(rng.sample(all_w, min(len(all_w), rng.randint(1, 2))))
            if t["need_facility"] and all_f and rng.random() < (0.15 if not big else 0.03):
                t["fixed_facilities"] = sorted(rng.sample(all_f, min(len(all_f), rng.randint(1, 2))))
    if p["fixed_lists"]:
        for t in tasks:
            if not t["auto"] and rng.random() < 0.02:
                t["fixed_workers"] = []          # legal: nobody may be allocated
    task_order = None
    if rng.random() < 0.4:
        task_order = list(range(n))
        rng.shuffle(task_order)           # workflow.task_list need not be in topological order
    for tm in teams:
        if rng.random() < 0.12:
            tm["ctor_targets"] = True
    absence = []
    if p["proj_absence"] and rng.random() < 0.4:
        absence = _absence(rng, horizon=16, maxn=4) if not big else _absence(rng, horizon=300, maxn=40)
        if rng.random() < 0.3:
            a0 = rng.randrange(0, 8)
            absence = sorted(set(absence) | {a0, a0 + 1})  # consecutive steps
        if rng.random() < 0.2:
            absence = sorted(set(absence) | {0})
    if len(absence) >= 2 and rng.random() < 0.25:
        rng.shuffle(absence)              # the user's list need not be sorted
    sim = dict(rule=rng.randrange(0, 9), absence=absence, auto_flag=rng.random() < 0.5,
               max_time=p["max_time"] if not big else p["max_time"] * 8)
    # --- boundary values of arguments (all legal)
    if rng.random() < p.get("boundary", 0.12):
        r_ = rng.random()
        if r_ < 0.25 and n >= 2:
            # a second link of ANOTHER kind between the same two tasks
            cand = [(i, d) for i, t in enumerate(tasks) for d in t["deps"]]
            if cand:
                i, d = rng.choice(cand)
                other = [k for k in p["kinds"] if k != d[1]]
                if other:
                    tasks[i]["deps"].append([d[0], rng.choice(other)])
        elif r_ < 0.45:
            # work_amount_progress_of_unit_step_time given to ordinary (worker-performed) tasks: it is the rate of AUTOMATIC tasks only
            for t in tasks:
                if not t["auto"] and rng.random() < 0.5:
                    t["rate"] = rng.choice([0.5, 3.0])
        elif r_ < 0.7 and comps:
            # components without size, workplaces without capacity, exact fits
            for c in comps:
                if rng.random() < 0.4:
                    c["space"] = 0.0
            for w in wps:
                r2 = rng.random()
                if r2 < 0.2:
                    w["max_space"] = 0.0
                elif r2 < 0.5:
                    w["max_space"] = rng.choice([c["space"] for c in comps])
        elif r_ < 0.85:
            sim["absence_as"] = rng.choice(["tuple", "set", "range"])     # the absence argument is some other iterable than a list
        else:
            sim["rule_as_int"] = True                                     # the rule is passed as the plain int of the enum member
    if n >= 2 and rng.random() < p.get("same_name", 0.06):
        # task names need not be unique (skills are per name, targeting and dependencies per object)
        j = rng.randrange(1, n)
        tasks[j]["name"] = tasks[rng.randrange(0, j)]["name"]
    if wps and rng.random() < p.get("id_collision", 0.06):
        # user-given IDs need not be unique ACROSS classes: a team called like a workplace, a worker like a facility
        ti_, pi_ = rng.randrange(len(teams)), rng.randrange(len(wps))
        teams[ti_]["id"] = wps[pi_]["id"]
        if len(teams) >= 2 and rng.random() < 0.6:
            # ... and the team called like the workplace has nothing to do with that workplace's tasks
            teams[ti_]["targets"] = [i for i in teams[ti_]["targets"] if i not in wps[pi_]["targets"]]
        ws_ = [w for tm in teams for w in tm["workers"]]
        fs_ = [f for wp in wps for f in wp["facilities"]]
        if ws_ and fs_ and rng.random() < 0.5:
            w_ = rng.choice(ws_)
            old_id, new_id = w_["id"], rng.choice(fs_)["id"]
            w_["id"] = new_id
            for t in tasks:
                if t["fixed_workers"]:
                    t["fixed_workers"] = [new_id if x == old_id else x for x in t["fixed_workers"]]
    out = dict(tasks=tasks, comps=comps, wps=wps, teams=teams, sim=sim, task_order=task_order)
    if big:
        out["large"] = True
    return out


# ---------------------------------------------------------------------------------------
# G-shape: systematic small families
# ---------------------------------------------------------------------------------------
def _simple_task(i, work, deps, auto=False):
    return dict(name="t%d" % i, id="T%d" % i, work=float(work), progress=0.0, auto=auto,
                need_facility=False, deps=deps, component=None, fixed_workers=None,
                fixed_facilities=None, wkr=0, fpr=0, wpr=0, due=None, rate=None)


def _worker(k, n, skills, cost=1.0):
    return dict(name="w%d_%d" % (k, n), id="W%d_%d" % (k, n), skills=dict(skills), fskills={},
                cost=cost, solo=False, absence=[], main_wp=None)


def shape_pairs():
    """Every dependency kind x (pred duration, succ duration) in {1,2,3}^2 x shared/own worker
    x pred auto or not."""
    out = []
    for kind in (FS, SS, SF, FF):
        for dp in (1, 2, 3):
            for ds in (1, 2, 3):
                for shared in (False, True):
                    for pauto in (False, True):
                        tasks = [_simple_task(0, dp, [], auto=pauto), _simple_task(1, ds, [[0, kind]])]
                        if shared:
                            workers = [_worker(0, 0, {"t0": 1.0, "t1": 1.0})]
                        else:
                            workers = [_worker(0, 0, {"t0": 1.0}), _worker(0, 1, {"t1": 1.0})]
                        teams = [dict(name="team0", id="TM0", targets=[0, 1], workers=workers)]
                        out.append(dict(tasks=tasks, comps=[], wps=[], teams=teams,
                                        sim=dict(rule=0, absence=[], auto_flag=False, max_time=40),
                                        shape=dict(family="pair", kind=kind, dp=dp, ds=ds,
                                                   shared=shared, pauto=pauto)))
    return out


def shape_chains(rng, count):
    """Chains, diamonds, fan-in / fan-out of length <= 5 with a single kind or mixed kinds;
    every task has its own worker."""
    out = []
    fams = ["chain", "diamond", "fanin", "fanout"]
    for _ in range(count):
        fam = rng.choice(fams)
        n = rng.randint(3, 5)
        mixed = rng.random() < 0.5
        k0 = rng.choice((FS, SS, SF, FF))
        kind = (lambda: rng.choice((FS, SS, SF, FF))) if mixed else (lambda: k0)
        same_work = rng.choice([0, 0, 1, 2])      # all tasks equally long: linked tasks reach zero together
        tasks = []
        for i in range(n):
            if fam == "chain":
                deps = [[i - 1, kind()]] if i else []
            elif fam == "diamond":
                if i == 0:
                    deps = []
                elif i < n - 1:
                    deps = [[0, kind()]]
                else:
                    deps = [[j, kind()] for j in range(1, n - 1)]
            elif fam == "fanin":
                deps = [[j, kind()] for j in range(n - 1)] if i == n - 1 else []
            else:
                deps = [[0, kind()]] if i else []
            tasks.append(_simple_task(i, (same_work if same_work else rng.choice([1, 1, 2, 3])), deps, auto=rng.random() < 0.1))
        workers = [_worker(0, i, {"t%d" % i: 1.0}) for i in range(n)]
        teams = [dict(name="team0", id="TM0", targets=list(range(n)), workers=workers)]
        out.append(dict(tasks=tasks, comps=[], wps=[], teams=teams,
                        sim=dict(rule=rng.randrange(9), absence=[], auto_flag=False, max_time=60),
                        shape=dict(family=fam, n=n, mixed=mixed)))
    return out


# ---------------------------------------------------------------------------------------
# G-feasible (C05): completion guaranteed by the stated rules
# ---------------------------------------------------------------------------------------
def gen_feasible(rng, cls=None):
    """class 1: FS/SS-only DAG, no facilities, no component-bound automatic task, every
    non-automatic unfinished task has >= 1 eligible worker (shared workers, solo flags, fixed
    lists naming an eligible worker, finite absences allowed).
    class 2: all four kinds, every non-automatic unfinished task has a dedicated worker
    (skilled for that task only, no fixed list excluding him)."""
    cls = cls or rng.choice([1, 2])
    kinds = (FS, SS) if cls == 1 else (FS, SS, SF, FF)
    prof = profile(kinds=kinds, facilities=False, comps=(rng.random() < 0.5), nested=False,
                   fixed_lists=False, ensure_worker=0.0, max_tasks=7, proj_absence=True,
                   p_res_absence=rng.choice([0.25, 0.7]),
                   same_name=(0.06 if cls == 1 else 0.0),   # class 2: a worker "skilled for that task only" needs unique names
                   large=0.0)    # (feasible runs go to the full sequential bound: a large model with work 1500 / skill 0.01 would run 150000 steps)
    spec = gen_random(rng, prof)
    tasks, teams = spec["tasks"], spec["teams"]
    for t in tasks:
        if t["auto"] and t["component"] is not None:
            t["component"] = None
    if cls == 1:
        for i, t in enumerate(tasks):
            if t["auto"]:
                continue
            elig = eligible_workers(spec, i)
            if not elig:
                k = rng.randrange(len(teams))
                w = rng.choice(teams[k]["workers"])
                if i not in teams[k]["targets"]:
                    teams[k]["targets"].append(i)
                w["skills"][t["name"]] = rng.choice([0.5, 1.0, 2.0])
            if rng.random() < 0.15:
                elig = eligible_workers(spec, i)
                t["fixed_workers"] = sorted(set(rng.sample(elig, 1) + (
                    [rng.choice([w["id"] for tm in teams for w in tm["workers"]])] if rng.random() < 0.5 else [])))
    else:
        # dedicated workers: remove all skills for the task from others is not needed; the
        # dedicated worker has a skill for this task only, so nobody else can claim him.
        k = len(teams)
        workers = []
        targets = []
        for i, t in enumerate(tasks):
            if t["auto"]:
                continue
            workers.append(dict(name="d%d" % i, id="D%d" % i, skills={t["name"]: rng.choice([0.5, 1.0, 2.0])},
                                fskills={}, cost=rng.choice(COSTS), solo=rng.random() < 0.2,
                                absence=_absence(rng) if rng.random() < 0.45 else [], main_wp=None))
            targets.append(i)
        if workers:
            teams.append(dict(name="dteam", id="TM%d" % k, targets=targets, workers=workers))
        # a solo worker already on the task would block the dedicated one forever: solo flags of
        # shared workers are cleared in this class.
        for tm in teams[:k]:
            for w in tm["workers"]:
                w["solo"] = False
        for t in tasks:
            t["fixed_workers"] = None
    spec["feasible_class"] = cls
    spec["sim"]["max_time"] = feasible_bound(spec)
    return spec


def eligible_workers(spec, i):
    t = spec["tasks"][i]
    out = []
    for tm in spec["teams"]:
        if i not in tm["targets"]:
            continue
        for w in tm["workers"]:
            if w["skills"].get(t["name"], 0.0) > 1e-10:
                if t["fixed_workers"] is None or w["id"] in t["fixed_workers"]:
                    out.append(w["id"])
    return out


def feasible_bound(spec):
    """Total sequential work bound: sum over tasks of ceil(remaining / min eligible skill) + 2,
    plus all absence steps, plus slack."""
    total = 5
    for i, t in enumerate(spec["tasks"]):
        rem = t["work"] * (1.0 - t["progress"])
        if t["auto"]:
            rate = t["rate"] if t["rate"] is not None else 1.0
            total += int(math.ceil(rem / rate)) + 2
            continue
        skills = []
        for tm in spec["teams"]:
            if i in tm["targets"]:
                for w in tm["workers"]:
                    s = w["skills"].get(t["name"], 0.0)
                    if s > 1e-10 and (t["fixed_workers"] is None or w["id"] in t["fixed_workers"]):
                        skills.append(s)
        ms = min(skills) if skills else 1.0
        total += int(math.ceil(rem / ms)) + 2
    total += len(spec["sim"]["absence"])
    for tm in spec["teams"]:
        for w in tm["workers"]:
            total += len(w["absence"])
    return total


# ---------------------------------------------------------------------------------------
# G-fs (C12): FS-only networks run under contention
# ---------------------------------------------------------------------------------------
def gen_fs(rng, max_tasks=9):
    prof = profile(kinds=(FS,), facilities=False, comps=False, max_tasks=max_tasks, min_tasks=2,
                   p_auto=0.1, fixed_lists=False, ensure_worker=0.9, p_edge=(0.15, 0.6))
    spec = gen_random(rng, prof)
    # contention: keep at most 2 workers in total
    if rng.random() < 0.6:
        keep = rng.randint(1, 2)
        allw = [(tm, w) for tm in spec["teams"] for w in tm["workers"]]
        rng.shuffle(allw)
        for tm, w in allw[keep:]:
            tm["workers"].remove(w)
        for tm in spec["teams"]:
            if not tm["workers"]:
                continue
            for i, t in enumerate(spec["tasks"]):
                if not t["auto"] and rng.random() < 0.8:
                    if i not in tm["targets"]:
                        tm["targets"].append(i)
                    tm["workers"][0]["skills"].setdefault(t["name"], 1.0)
        spec["teams"] = [tm for tm in spec["teams"] if tm["workers"]] or spec["teams"][:1]
        for tm in spec["teams"]:
            if not tm["workers"]:
                tm["workers"].append(_worker(0, 0, {}))
    return spec


# ---------------------------------------------------------------------------------------
# fixtures of tests/model/test_base_project.py re-created as specs, then perturbed
# ---------------------------------------------------------------------------------------
def _t(i, name, work=10.0, deps=(), auto=False, nf=False, comp=None, wkr=-1, due=None):
    return dict(name=name, id="T%d" % i, work=float(work), progress=0.0, auto=auto, need_facility=nf,
                deps=[list(d) for d in deps], component=comp, fixed_workers=None, fixed_facilities=None,
                wkr=wkr, fpr=0, wpr=0, due=due, rate=None)


def fixture_specs():
    out = {}
    # dummy_project
    tasks = [_t(0, "task1_1", nf=True, comp=1), _t(1, "task1_2", deps=[(0, FS)], comp=1, wkr=2),
             _t(2, "task2_1", comp=2), _t(3, "task3", deps=[(1, FS), (2, FS)], comp=0, due=30),
             _t(4, "auto", auto=True, due=20)]
    comps = [dict(name="c3", id="C0", space=1.0, children=[1, 2]), dict(name="c1", id="C1", space=1.0, children=[]),
             dict(name="c2", id="C2", space=1.0, children=[])]
    wps = [dict(name="workplace", id="WP0", max_space=1.0, inputs=[], targets=[0, 1, 2, 3],
                facilities=[dict(name="f1", id="F0_0", skills={"task1_1": 1.0}, cost=0.0, solo=False, absence=[])])]
    w1 = dict(name="w1", id="W0_0", skills={"task1_1": 1.0, "task1_2": 1.0, "task2_1": 0.0, "task3": 1.0},
              fskills={"f1": 1.0}, cost=10.0, solo=False, absence=[], main_wp=None)
    w2 = dict(name="w2", id="W0_1", skills={"task1_1": 1.0, "task1_2": 0.0, "task2_1": 1.0, "task3": 1.0},
              fskills={"f1": 1.0}, cost=6.0, solo=False, absence=[], main_wp=None)
    teams = [dict(name="team", id="TM0", targets=[0, 1, 2, 3], workers=[w1, w2])]
    out["dummy_project"] = dict(tasks=tasks, comps=comps, wps=wps, teams=teams,
                                sim=dict(rule=0, absence=[], auto_flag=False, max_time=100))
    d2 = copy.deepcopy(out["dummy_project"])
    d2["tasks"][1]["wkr"] = -1
    d2["teams"][0]["workers"][1]["solo"] = True
    out["dummy_project2"] = d2
    # place_check
    tasks = [_t(0, "t1", nf=True, comp=0), _t(1, "t2", nf=True, comp=1), _t(2, "t3", nf=True, comp=2)]
    comps = [dict(name="c1", id="C0", space=1.0, children=[]), dict(name="c2", id="C1", space=1.0, children=[]),
             dict(name="c3", id="C2", space=1.0, children=[])]
    sk = {"t1": 1.0, "t2": 1.0, "t3": 1.0}
    wps = [dict(name="workplace", id="WP0", max_space=1.5, inputs=[], targets=[0, 1, 2], facilities=[
        dict(name="f1", id="F0_0", skills=dict(sk), cost=0.0, solo=True, absence=[]),
        dict(name="f2", id="F0_1", skills=dict(sk), cost=0.0, solo=True, absence=[])])]
    teams = [dict(name="team", id="TM0", targets=[0, 1, 2], workers=[
        dict(name="w1", id="W0_0", skills=dict(sk), fskills={"f1": 1.0}, cost=10.0, solo=False, absence=[], main_wp=None),
        dict(name="w2", id="W0_1", skills=dict(sk), fskills={"f2": 1.0}, cost=6.0, solo=False, absence=[], main_wp=None)])]
    out["place_check"] = dict(tasks=tasks, comps=comps, wps=wps, teams=teams,
                              sim=dict(rule=0, absence=[], auto_flag=False, max_time=100))
    # simple_project
    tasks = [_t(0, "task1", 2, comp=0), _t(1, "task2", 2, deps=[(3, FS)], comp=0), _t(2, "task3", 2, deps=[(4, FS)], comp=0),
             _t(3, "auto_task2", 2, auto=True), _t(4, "auto_task3", 4, auto=True)]
    comps = [dict(name="c", id="C0", space=1.0, children=[])]
    teams = [dict(name="team", id="TM0", targets=[0, 1, 2], workers=[
        dict(name="w1", id="W0_0", skills={"task1": 1.0}, fskills={}, cost=0.0, solo=False, absence=[], main_wp=None),
        dict(name="w1", id="W0_1", skills={"task2": 1.0}, fskills={}, cost=0.0, solo=False, absence=[], main_wp=None),
        dict(name="w3", id="W0_2", skills={"task3": 1.0}, fskills={}, cost=0.0, solo=False, absence=[], main_wp=None)])]
    out["simple_project"] = dict(tasks=tasks, comps=comps, wps=[], teams=teams,
                                 sim=dict(rule=0, absence=[], auto_flag=False, max_time=100))
    # space judge
    tasks = [_t(0, "task_a", 2, nf=True, comp=0, wkr=2), _t(1, "task_b", 2, nf=True, comp=1, wkr=2)]
    comps = [dict(name="a", id="C0", space=1.0, children=[]), dict(name="b", id="C1", space=1.0, children=[])]
    sk = {"task_a": 1.0, "task_b": 1.0}
    wps = [dict(name="workplace1", id="WP0", max_space=3.0, inputs=[], targets=[0, 1],
                facilities=[dict(name="machine1", id="F0_0", skills=dict(sk), cost=10.0, solo=True, absence=[])]),
           dict(name="workplace2", id="WP1", max_space=3.0, inputs=[], targets=[0, 1],
                facilities=[dict(name="machine2", id="F1_0", skills=dict(sk), cost=10.0, solo=True, absence=[])])]
    teams = [dict(name="factory_A", id="TM0", targets=[0, 1], workers=[
        dict(name="w1", id="W0_0", skills=dict(sk), fskills={"machine1": 1.0}, cost=10.0, solo=False, absence=[], main_wp=None),
        dict(name="w2", id="W0_1", skills=dict(sk), fskills={"machine2": 1.0}, cost=10.0, solo=False, absence=[], main_wp=None)])]
    out["space_judge"] = dict(tasks=tasks, comps=comps, wps=wps, teams=teams,
                              sim=dict(rule=0, absence=[], auto_flag=False, max_time=100))

    # conveyor (flat and with child components)
    def conveyor(child):
        wa = [10, 3, 3, 3, 5, 3] if not child else [6, 2, 2, 2, 7, 2]
        names = ["A1", "A2", "A3", "B1", "B2", "B3"]
        if not child:
            comps = [dict(name="c%d" % (k + 1), id="C%d" % k, space=1.0, children=[]) for k in range(3)]
            cmap = [0, 1, 2, 0, 1, 2]
        else:
            comps = []
            for k in range(3):
                comps.append(dict(name="c%d_1" % (k + 1), id="C%d" % (2 * k), space=1.0, children=[]))
                comps.append(dict(name="c%d_2" % (k + 1), id="C%d" % (2 * k + 1), space=1.0, children=[2 * k]))
            cmap = [0, 2, 4, 1, 3, 5]
        tasks = []
        for i, nm in enumerate(names):
            deps = [(i - 3, FS)] if i >= 3 else []
            tasks.append(_t(i, nm, wa[i], deps=deps, nf=True, comp=cmap[i]))
        ska = {"A1": 1.0, "A2": 1.0, "A3": 1.0}
        skb = {"B1": 1.0, "B2": 1.0, "B3": 1.0}
        sp = [1.0, 1.0, 1.0, 1.0] if not child else [1.0, 2.0, 4.0, 4.0]
        wps = []
        for k in range(4):
            wps.append(dict(name="workplace%d" % (k + 1), id="WP%d" % k, max_space=sp[k],
                            inputs=([k - 2] if k >= 2 else []), targets=([0, 1, 2] if k < 2 else [3, 4, 5]),
                            facilities=[dict(name="f%d" % (k + 1), id="F%d_0" % k, skills=dict(ska if k < 2 else skb),
                                             cost=0.0, solo=False, absence=[])]))
        workers = []
        for k in range(4):
            workers.append(dict(name="w%d" % (k + 1), id="W0_%d" % k, skills=dict(ska if k < 2 else skb),
                                fskills={"f%d" % (k + 1): 1.0}, cost=0.0, solo=False, absence=[], main_wp=None))
        teams = [dict(name="team", id="TM0", targets=list(range(6)), workers=workers)]
        return dict(tasks=tasks, comps=comps, wps=wps, teams=teams,
                    sim=dict(rule=0, absence=[], auto_flag=False, max_time=100))

    out["conveyor"] = conveyor(False)
    out["conveyor_child"] = conveyor(True)
    return out


def perturb_fixture(rng, spec):
    s = copy.deepcopy(spec)
    s["sim"]["rule"] = rng.randrange(9)
    if rng.random() < 0.5:
        s["sim"]["absence"] = _absence(rng, horizon=20, maxn=4)
        s["sim"]["auto_flag"] = rng.random() < 0.5
    for t in s["tasks"]:
        if rng.random() < 0.4:
            t["work"] = float(rng.choice([1, 2, 3, 4, 6, 2.5]))
        if rng.random() < 0.15:
            t["wpr"] = rng.choice([0, 1])
        if rng.random() < 0.15:
            t["wkr"] = rng.choice([-1, 0, 1, 2])
        if rng.random() < 0.15:
            t["fpr"] = rng.choice([0, 1, 2])
    for wp in s["wps"]:
        if rng.random() < 0.3:
            wp["max_space"] = rng.choice([1.0, 1.5, 2.0, 3.0, 4.0])
        for f in wp["facilities"]:
            if rng.random() < 0.15:
                f["absence"] = _absence(rng, horizon=12)
            if rng.random() < 0.3:
                f["cost"] = rng.choice(COSTS)
    for tm in s["teams"]:
        for w in tm["workers"]:
            if rng.random() < 0.15:
                w["absence"] = _absence(rng, horizon=12)
            if rng.random() < 0.3:
                w["cost"] = rng.choice(COSTS)
    for c in s["comps"]:
        if rng.random() < 0.2:
            c["space"] = rng.choice([0.5, 1.0, 2.0])
    return s


def spec_features(spec):
    """Cheap structural facts used by evidence and by non-triviality rules."""
    kinds = set()
    for t in spec["tasks"]:
        for _, k in t["deps"]:
            kinds.add(k)
    return dict(
        n_tasks=len(spec["tasks"]), kinds=sorted(kinds),
        n_workers=sum(len(tm["workers"]) for tm in spec["teams"]),
        n_fac=sum(len(wp["facilities"]) for wp in spec["wps"]),
        n_comp=len(spec["comps"]), nested=any(c["children"] for c in spec["comps"]),
        absence=len(spec["sim"]["absence"]),
    )


def add_idle_parts(rng, spec):
    """Model parts that never do anything: a team without workers (a placeholder), a workplace without
    facilities, a component without tasks.  They still have per-step logs."""
    k = len(spec["teams"])
    targets = sorted(rng.sample(range(len(spec["tasks"])), rng.randint(0, min(2, len(spec["tasks"])))))
    spec["teams"].append(dict(name="reserve", id="TM%d" % k, targets=targets, workers=[]))
    if rng.random() < 0.5:
        k = len(spec["wps"])
        spec["wps"].append(dict(name="yard", id="WP%d" % k, max_space=rng.choice([1.0, 3.0]), inputs=[], targets=[], facilities=[]))
    if rng.random() < 0.5:
        k = len(spec["comps"])
        spec["comps"].append(dict(name="spare", id="C%d" % k, space=1.0, children=[]))
    return spec


# ---------------------------------------------------------------------------------------
# G-scale: models beyond the usual small sizes (each kind stretches ONE dimension, the others stay small so
# that a monitored run remains cheap)
# ---------------------------------------------------------------------------------------
SCALE_KINDS = ("long", "wide", "one_component", "ff_chain", "many_resources", "numeric_ids", "many_components", "shared_ids")


def gen_scale(rng, kind=None, kinds=(FS, SS, FF, SF)):
    kind = kind or rng.choice(SCALE_KINDS)
    if kind == "long":
        # a small model that runs for hundreds of steps: big work amounts / tiny skills, late and long absence
        # blocks (project-wide and individual), costs with many digits
        spec = gen_random(rng, profile(large=0.0, max_tasks=6, min_tasks=2, ensure_worker=0.97, nested=False, kinds=kinds,
                                       fixed_lists=False, max_time=1500))
        f = rng.choice([40.0, 100.0, 250.0])
        for t in spec["tasks"]:
            t["work"] = round(t["work"] * f, 4)
            if t["auto"] and t["rate"] is None and rng.random() < 0.5:
                t["rate"] = rng.choice([1.0, 2.0, 5.0])
        if rng.random() < 0.3:
            for tm in spec["teams"]:
                for w in tm["workers"]:
                    for k in list(w["skills"]):
                        w["skills"][k] = round(w["skills"][k] * 0.01, 6)     # skills of 1e-3 .. 3e-2
            for t in spec["tasks"]:
                t["work"] = round(t["work"] / 100.0, 6)
        r = rng.random()
        if r < 0.6:
            a0 = rng.choice([20, 60, 130, 300])
            block = list(range(a0, a0 + rng.choice([3, 30, 101, 140])))
            if rng.random() < 0.6:
                spec["sim"]["absence"] = block
            else:
                ws = [w for tm in spec["teams"] for w in tm["workers"]]
                for w in rng.sample(ws, max(1, len(ws) // 2)):
                    w["absence"] = list(block)
        elif r < 0.8:
            spec["sim"]["absence"] = sorted(rng.sample(range(0, 600), rng.randint(20, 80)))
        for tm in spec["teams"]:
            for w in tm["workers"]:
                if rng.random() < 0.4:
                    w["cost"] = rng.choice([1234.5678, 0.001, 99.99, 3.3333333])
        spec["sim"]["max_time"] = 1500
    elif kind in ("wide", "one_component", "many_resources"):
        # hundreds of tasks, every one short and with a worker of its own: a run of a few steps
        n = rng.choice([40, 130, 257, 257, 300]) if kind == "wide" else rng.choice([33, 40, 70])
        if kind == "many_resources":
            n = rng.choice([12, 20])
        tasks = []
        join = rng.random() < 0.7
        jk = rng.choice(kinds) if rng.random() < 0.7 else None          # one kind for the whole fan-in, or mixed
        for i in range(n):
            deps = []
            if join and i == n - 1:
                deps = [[j, jk if jk is not None else rng.choice(kinds)] for j in range(n - 1)]       # fan-in of n-1
            elif not join and i and rng.random() < 0.3:
                deps = [[rng.randrange(0, i), rng.choice(kinds)]]
            tasks.append(_simple_task(i, rng.choice([1.0, 1.0, 2.0, 0.0]), deps))
        comps, wps = [], []
        if kind == "one_component":
            comps = [dict(name="c0", id="C0", space=1.0, children=[])]
            for t in tasks:
                t["component"] = 0
            if rng.random() < 0.5:
                # the head task is registered LAST on the component / in the workflow
                tasks[0]["deps"], tasks[-1]["deps"] = [], []
                for i in range(n - 1):
                    tasks[i]["deps"] = [[n - 1, FS]]
        nw = n if kind != "many_resources" else rng.choice([150, 300])
        workers = []
        for i in range(nw):
            sk = {"t%d" % (i % n): 1.0}
            if kind == "many_resources":
                sk = {"t%d" % k: rng.choice([0.5, 1.0, 2.0]) for k in rng.sample(range(n), 3)}
            workers.append(_worker(i // 100, i % 100, sk, cost=rng.choice([1.0, 2.5])))
            if rng.random() < 0.12:
                workers[-1]["absence"] = sorted(rng.sample(range(0, 6), rng.randint(1, 2)))
        teams = []
        for k in range((nw + 99) // 100):
            teams.append(dict(name="team%d" % k, id="TM%d" % k, targets=list(range(n)), workers=workers[k * 100:(k + 1) * 100]))
        if kind == "many_resources" and rng.random() < 0.6:
            # facility tasks on single-task components, one big workplace: many free workers AND pairs
            comps = [dict(name="c%d" % i, id="C%d" % i, space=1.0, children=[]) for i in range(n)]
            for i, t in enumerate(tasks):
                if rng.random() < 0.7:
                    t["component"], t["need_facility"] = i, True
            facs = [dict(name="f0_%d" % j, id="F0_%d" % j, skills={"t%d" % i: 1.0 for i in range(n)}, cost=1.0, solo=False, absence=[])
                    for j in range(rng.randint(4, 10))]
            wps = [dict(name="wp0", id="WP0", max_space=float(n), inputs=[], targets=list(range(n)), facilities=facs)]
            for w in workers:
                w["fskills"] = {f["name"]: 1.0 for f in facs}
        order = None
        if rng.random() < 0.5:
            order = list(range(n))
            rng.shuffle(order)
        spec = dict(tasks=tasks, comps=comps, wps=wps, teams=teams,
                    sim=dict(rule=rng.randrange(9), absence=[] if rng.random() < 0.7 else [0, 2], auto_flag=False, max_time=60),
                    task_order=order)
    elif kind == "ff_chain":
        # a chain of 11..40 finish-gated tasks that all reach zero in the same step, listed tail to head (or shuffled)
        n = rng.choice([11, 12, 16, 30, 40])
        k0 = rng.choice([FF, FF, SF, FF]) if FF in kinds else rng.choice(kinds)
        w0 = rng.choice([1.0, 2.0, 3.0])
        tasks = [_simple_task(i, w0, [[i - 1, k0 if rng.random() < 0.85 else rng.choice(kinds)]] if i else []) for i in range(n)]
        workers = [_worker(0, i, {"t%d" % i: 1.0}) for i in range(n)]
        teams = [dict(name="team0", id="TM0", targets=list(range(n)), workers=workers)]
        order = list(range(n))
        r = rng.random()
        if r < 0.6:
            order.reverse()
        elif r < 0.8:
            rng.shuffle(order)
        spec = dict(tasks=tasks, comps=[], wps=[], teams=teams,
                    sim=dict(rule=rng.randrange(9), absence=[], auto_flag=False, max_time=80), task_order=order)
    elif kind == "numeric_ids":
        # ten and more teams / workplaces and two-digit running numbers: ID strings that are prefixes of each
        # other ("Team1" / "Team11") and task IDs that start with a digit ("3", "13")
        nt = rng.randint(10, 14)
        n = 2 * nt
        tasks = [_simple_task(i, rng.choice([1.0, 2.0, 3.0]), [[i - nt, rng.choice(kinds)]] if i >= nt and rng.random() < 0.5 else []) for i in range(n)]
        for i, t in enumerate(tasks):
            t["id"] = "%d" % (i + 1)
        teams = []
        for k in range(nt):
            w = _worker(k, 0, {"t%d" % j: 1.0 for j in range(n) if rng.random() < 0.6 or j in (k, k + nt)})
            w["id"] = "W%d" % (k + 1)
            teams.append(dict(name="team%d" % (k + 1), id="Team%d" % (k + 1), targets=[k, k + nt], workers=[w]))
        spec = dict(tasks=tasks, comps=[], wps=[], teams=teams,
                    sim=dict(rule=rng.randrange(9), absence=[], auto_flag=False, max_time=120), task_order=None)
        if rng.random() < 0.5:
            # the same with workplaces: facility tasks on single-task components
            nw = rng.randint(10, 12)
            spec["comps"] = [dict(name="c%d" % i, id="C%d" % i, space=1.0, children=[]) for i in range(n)]
            for i, t in enumerate(tasks):
                t["component"], t["need_facility"] = i, True
            for k in range(nw):
                f = dict(name="f%d_0" % k, id="F%d" % (k + 1), skills={"t%d" % j: 1.0 for j in range(n) if rng.random() < 0.6 or j % nw == k},
                         cost=1.0, solo=False, absence=[])
                spec["wps"].append(dict(name="wp%d" % k, id="Shop%d" % (k + 1), max_space=3.0, inputs=[],
                                        targets=[j for j in range(n) if j % nw == k], facilities=[f]))
            for tm in teams:
                for w in tm["workers"]:
                    w["fskills"] = {"f%d_0" % k: 1.0 for k in range(nw)}
    elif kind == "shared_ids":
        # (not a matter of size) running numbers as IDs in every class: team "1" and workplace "1", worker "2" and
        # facility "2", task "3" and component "3" - each class is looked up in its own list
        nt, nw = rng.randint(2, 3), rng.randint(2, 3)
        n = rng.randint(3, 6)
        tasks, comps = [], []
        for i in range(n):
            t = _simple_task(i, rng.choice([1.0, 2.0, 3.0]), [[i - 1, rng.choice(kinds)]] if i and rng.random() < 0.3 else [])
            t["id"] = "%d" % (i + 1)
            if rng.random() < 0.6:
                t["need_facility"], t["component"] = True, len(comps)
                comps.append(dict(name="c%d" % len(comps), id="%d" % (len(comps) + 1), space=1.0, children=[]))
            tasks.append(t)
        wps = []
        fid = 0
        for k in range(nw):
            facs = []
            for j in range(rng.randint(1, 2)):
                fid += 1
                facs.append(dict(name="f%d" % fid, id="%d" % fid, skills={t["name"]: 1.0 for t in tasks if t["need_facility"]},
                                 cost=1.0, solo=False, absence=[]))
            wps.append(dict(name="wp%d" % k, id="%d" % (k + 1), max_space=float(n), inputs=[],
                            targets=[i for i, t in enumerate(tasks) if t["need_facility"] and (i % nw == k or rng.random() < 0.3)], facilities=facs))
        teams = []
        wid = 0
        for k in range(nt):
            workers = []
            for j in range(rng.randint(1, 2)):
                wid += 1
                w = _worker(k, j, {t["name"]: 1.0 for t in tasks})
                w["id"] = "%d" % wid
                w["fskills"] = {f["name"]: 1.0 for wp in wps for f in wp["facilities"]}
                workers.append(w)
            # team k is assigned to some of the tasks only - in particular not necessarily to those of workplace k
            teams.append(dict(name="team%d" % k, id="%d" % (k + 1), targets=sorted(i for i in range(n) if i % nt == k or rng.random() < 0.25), workers=workers))
        for i in range(n):
            if not any(i in tm["targets"] for tm in teams):
                teams[0]["targets"].append(i)
        spec = dict(tasks=tasks, comps=comps, wps=wps, teams=teams,
                    sim=dict(rule=rng.randrange(9), absence=[], auto_flag=False, max_time=60), task_order=None)
    elif kind == "many_components":
        # sixteen and more components lying in ONE workplace at the same time, of different sizes, arriving and
        # leaving at different steps; the workplace is nearly full
        nc = rng.randint(17, 26)
        sizes = [rng.choice([0.5, 1.0, 1.0, 2.0, 3.0]) for _ in range(nc)]
        tasks, comps = [], []
        for i in range(nc):
            tasks.append(_simple_task(i, rng.choice([3.0, 8.0, 20.0, 25.0, 30.0, 40.0]), [[rng.randrange(0, i), FS]] if i and rng.random() < 0.15 else []))
            tasks[-1]["need_facility"], tasks[-1]["component"] = True, i
            comps.append(dict(name="c%d" % i, id="C%d" % i, space=sizes[i], children=[]))
        facs = [dict(name="f0_%d" % j, id="F0_%d" % j, skills={"t%d" % i: 1.0 for i in range(nc)}, cost=1.0, solo=False, absence=[])
                for j in range(nc)]
        cap = round(sum(sizes) * rng.choice([0.7, 0.85, 0.95, 1.0]), 2)
        wps = [dict(name="wp0", id="WP0", max_space=cap, inputs=[], targets=list(range(nc)), facilities=facs)]
        if rng.random() < 0.4:
            wps.append(dict(name="wp1", id="WP1", max_space=round(cap / 3.0, 2), inputs=[], targets=list(range(nc)),
                            facilities=[dict(name="f1_%d" % j, id="F1_%d" % j, skills={"t%d" % i: 1.0 for i in range(nc)}, cost=1.0, solo=False, absence=[]) for j in range(4)]))
        workers = [_worker(0, j, {"t%d" % i: 1.0 for i in range(nc)}) for j in range(nc)]
        for w in workers:
            w["fskills"] = {f["name"]: 1.0 for wp in wps for f in wp["facilities"]}
        teams = [dict(name="team0", id="TM0", targets=list(range(nc)), workers=workers)]
        spec = dict(tasks=tasks, comps=comps, wps=wps, teams=teams,
                    sim=dict(rule=rng.randrange(9), absence=[], auto_flag=False, max_time=200), task_order=None)
    else:
        raise ValueError(kind)
    spec["scale"] = kind
    return spec


def gen_fs_chain(n, work=1.0):
    """A never-simulated FS chain of n tasks (for checks that do not simulate: save/load, PERT on demand)."""
    tasks = [_simple_task(i, work, [[i - 1, FS]] if i else []) for i in range(n)]
    for i, t in enumerate(tasks):
        t["id"] = "T%04d" % i
    workers = [_worker(0, 0, {"t0": 1.0}), _worker(0, 1, {"t1": 1.0})]
    teams = [dict(name="team0", id="TM0", targets=[0, 1], workers=workers)]
    return dict(tasks=tasks, comps=[], wps=[], teams=teams, sim=dict(rule=0, absence=[], auto_flag=False, max_time=10),
                task_order=None, scale="fs_chain_%d" % n)


def non_ascii_names(rng, spec):
    """Names in other scripts / with accents (task names are also the keys of the skill maps)."""
    pool = ["設計", "組立", "検査", "Tâche d'intégration", "Prüfung", "сборка", "溶接工", "Ünal", "café"]
    ren = {}
    for t in spec["tasks"]:
        if rng.random() < 0.6 and t["name"] not in ren:
            ren[t["name"]] = rng.choice(pool) + "_" + t["name"]
    for t in spec["tasks"]:
        t["name"] = ren.get(t["name"], t["name"])
    for grp, key in ((spec["teams"], "workers"), (spec["wps"], "facilities")):
        for g in grp:
            if rng.random() < 0.5:
                g["name"] = rng.choice(pool) + "_" + g["name"]
            for r in g[key]:
                r["skills"] = {ren.get(k, k): v for k, v in r["skills"].items()}
                if rng.random() < 0.4:
                    if key == "facilities":
                        old = r["name"]
                        r["name"] = rng.choice(pool) + "_" + old
                        for tm in spec["teams"]:
                            for w in tm["workers"]:
                                if old in w["fskills"]:
                                    w["fskills"][r["name"]] = w["fskills"].pop(old)
                    else:
                        r["name"] = rng.choice(pool) + "_" + r["name"]
    for c in spec["comps"]:
        if rng.random() < 0.4:
            c["name"] = rng.choice(pool) + "_" + c["name"]
    return spec


def off_grid(rng, spec):
    """Numbers off every decimal grid (DESIGN 8.5p): work amounts scaled by 1/3, 2/3, 1/7, pi/4 or 10/7, positive skills
    by 1/3, 2/3 or 7/9 (half of them), rates by 1/3 or 1/7, and - for half of the models with workplaces - component
    sizes just above an integer fraction of a workplace capacity (k of them miss the capacity by k*delta < 0.001).
    Zero stays zero; structure, flags, lists and steps are untouched. `rng` is a stream of its own, so that cases which
    are not selected stay exactly as they were."""
    import math
    f = rng.choice([1 / 3.0, 2 / 3.0, 1 / 7.0, math.pi / 4, 10 / 7.0])
    for t in spec["tasks"]:
        t["work"] = t["work"] * f
    g = rng.choice([1 / 3.0, 2 / 3.0, 7 / 9.0])
    res = [w for tm in spec["teams"] for w in tm["workers"]] + [x for wp in spec["wps"] for x in wp["facilities"]]
    for r in res:
        for name in sorted(r["skills"]):
            if r["skills"][name] > 0 and rng.random() < 0.5:
                r["skills"][name] = r["skills"][name] * g
        r["cost"] = r["cost"] * rng.choice([1.0, 1 / 3.0, 1 / 7.0])
    if spec["wps"] and spec["comps"] and rng.random() < 0.5:
        cap = rng.choice([wp["max_space"] for wp in spec["wps"]])
        if cap > 0:
            k = rng.choice([2, 3])
            delta = rng.choice([1e-4, 3e-4, 1e-6, 4e-5])
            for c in spec["comps"]:
                if c.get("space", 0) > 0:
                    c["space"] = cap / k + delta
    spec["sim"]["max_time"] = int(spec["sim"]["max_time"] * 4)
    spec["off_grid"] = True
    return spec
