"""C18: editing absence steps out of / into finished logs keeps all logs aligned."""
import copy

from . import gen as G
from . import monitors as M
from . import build as B
from . import instr as I
from .runner import rng_for, Result, ns, exc_info
from .history import Hist

TOL = 1e-12


def index_list(rng, T, present):
    kind = rng.choice(["interior", "interior", "zero", "last", "beyond", "dup", "empty", "unsorted", "mixed", "repeat"])
    T = max(T, 1)
    inner = list(range(1, max(2, T - 1)))
    if T > 100 and rng.random() < 0.5:
        # many steps in one call (65 and more), on the long logs
        out = rng.sample(inner, min(len(inner), rng.randint(65, 130)))
        if rng.random() < 0.5:
            out.sort()
        return out
    if kind == "interior":
        return rng.sample(inner, min(len(inner), rng.randint(1, 3)))
    if kind == "zero":
        return [0] + (rng.sample(inner, 1) if rng.random() < 0.5 else [])
    if kind == "last":
        return [T - 1] if rng.random() < 0.5 else [T]
    if kind == "beyond":
        return [T + rng.randint(1, 30)] + (rng.sample(inner, 1) if rng.random() < 0.5 else [])
    if kind == "dup":
        return (rng.sample(present, min(len(present), 2)) if present else []) + rng.sample(inner, 1)
    if kind == "empty":
        return []
    if kind == "repeat":
        x = rng.choice(inner)
        return [x, x] + (rng.sample(inner, 1) if rng.random() < 0.4 else [])
    if kind == "unsorted":
        x = rng.sample(inner, min(len(inner), 3))
        x.sort(reverse=True)
        return x
    return sorted(set([0, T - 1, T + 5] + rng.sample(inner, 1)))


def make_case(prop, seed, i, tier):
    rng = rng_for(prop, seed, i)
    spec = G.gen_random(rng, G.profile(facility_rich=rng.random() < 0.4, ensure_worker=0.9, max_time=50))
    if rng.random() < 0.07:
        spec = G.gen_scale(rng, rng.choice(["long", "long", "many_resources", "wide", "many_components"]))   # long logs / many objects
    if rng.random() < 0.5:
        spec["sim"]["absence"] = []
    sub = None
    if rng.random() < 0.15:
        sub = rng.randrange(len(spec["tasks"]))
        t = spec["tasks"][sub]
        t["auto"], t["need_facility"], t["component"] = True, False, None
    if rng.random() < 0.3:
        G.add_idle_parts(rng, spec)
    kind = "roundtrip" if (i % 3 == 0) else "edits"
    first = ["sim"]
    if rng.random() < 0.2:
        # the simulated project is the result of a backward run (absence list mirrored by the log reversal)
        first = ["backward", rng.random() < 0.5, rng.random() < 0.8]
        if rng.random() < 0.6:
            spec["sim"]["absence"] = sorted(set(spec["sim"]["absence"]) | {rng.choice([1, 2, 3]), rng.choice([200, 1000, 1001])})
    more_first = []
    r_ = rng.random()
    if r_ < 0.12 and first[0] == "sim":
        # the logs come from two calls with DIFFERENT project absence lists: pause + resume, or run + appended run
        other = sorted(rng.sample(range(0, 40), rng.randint(0, 4)))
        if rng.random() < 0.5:
            first = ["pause", rng.choice([2, 3, 5, 8])]
            more_first.append(["resume_abs", other])
        else:
            more_first.append(["sim_keeplog_abs", other])
    if rng.random() < 0.15:
        more_first.append(rng.choice([["saveload"], ["reload"]]))    # the edited project was read from a file
    return dict(prop=prop, i=i, kind=kind, spec=spec, subproject_task=sub, eseed=rng.randrange(10 ** 9), first=first, more_first=more_first)


def log_lengths(p):
    return {(a, b): len(l) for a, b, l in B.all_logs(p)}


def run_case(case):
    import random
    res = Result(case)
    spec = case["spec"]
    rng = random.Random(case["eseed"])
    I.install()
    I.set_order(I.default_order(spec))
    ov = None
    if case.get("subproject_task") is not None:
        ov = {case["subproject_task"]: (ns.BaseSubProjectTask, {})}
        res.count("C18.models_with_subproject_task")
    m = B.build(spec, task_overrides=ov)
    h = Hist(spec, model=m)
    tr = I.Tracer([])
    err = h.do(case.get("first") or ["sim"])
    res.count("C18.first." + (case.get("first") or ["sim"])[0])
    for op_ in case.get("more_first") or []:
        if err is None:
            err = h.do(op_)
            res.count("C18.first_then." + op_[0])
    res["source"] = case["kind"]
    if err is not None:
        res["aborted"] = err
        return res
    p = h.p
    if not M.check_alignment(tr, p, prop="C18", mech="C18/misaligned-before-edit", context="after simulate"):
        res.absorb(tr, props=())   # alignment before any edit is C08's business
        res.count("C18.skipped_misaligned_before_edit")
        return res
    placements = any(any(x for x in wp.placed_component_id_record) for wp in p.organization.workplace_list)
    interior = False
    if case["kind"] == "roundtrip":
        # insert into an absence-free result, then remove: previous logs must come back
        if p.absence_time_list:
            p.remove_absence_time_list()
            if not M.check_alignment(tr, p, prop="C18", mech="x", context=""):
                res.count("C18.skipped_misaligned_before_edit")
                return res
        before = B.dump(p, live=False)
        L = index_list(rng, p.time, [])
        edits = [["insert_abs", L], ["remove_abs"]]
    else:
        edits = []
        for _ in range(rng.randint(1, 4)):
            if rng.random() < 0.4:
                edits.append(["remove_abs"])
            else:
                edits.append(["insert_abs", None])
    h.warnings_as_errors = bool(case["i"] % 5 == 3)     # every fifth case: the edits run with warnings turned into errors
    if h.warnings_as_errors:
        res.count("C18.cases_with_warnings_as_errors")
    for op in edits:
        T0 = p.time
        if op[0] == "insert_abs" and op[1] is None:
            op = ["insert_abs", index_list(rng, p.time, list(p.absence_time_list))]
        lens0 = log_lengths(p)
        pre_abs = list(p.absence_time_list)
        pre_rem = {t: list(t.remaining_work_amount_record_list) for t in p.workflow.task_list}
        e = h.do(op)
        res.count("C18.edits")
        res.count("C18.edit." + op[0])
        has_sub = case.get("subproject_task") is not None
        if e is not None:
            mech = "C18/edit-raises:%s:%s" % (e["type"], e["where"].split(":")[-1])
            if op[0] == "insert_abs" and 0 in op[1]:
                mech += ":step-0"
            res.violate("C18", mech, "%s on a run of %d steps raised %s: %s (%s)" % (op, T0, e["type"], e["msg"], e["where"]), op=op)
            break
        lens1 = log_lengths(p)
        deltas = {}
        for k in lens1:
            deltas.setdefault(lens1[k] - lens0.get(k, 0), []).append("%s.%s" % k)
        res.count("C18.log_delta_checks", len(lens1))
        if op[0] == "insert_abs" and any(0 < x < T0 - 1 for x in op[1]):
            interior = True
        common = set(lens1.values())
        if len(deltas) > 1 or len(common) > 1 or (common and list(common)[0] != p.time):
            # classify by which logs deviate from the majority (witness facts)
            major = max(deltas.items(), key=lambda kv: len(kv[1]))[0]
            odd = sorted(x for d, v in deltas.items() if d != major for x in v)
            names = set(x.split(".", 1)[1] for x in odd)
            owners = set(x.split(".", 1)[0].split(":")[0] for x in odd)
            sub_ids = set("T:" + t.ID for t in p.workflow.task_list if isinstance(t, ns.BaseSubProjectTask))
            beyond = op[0] == "insert_abs" and any(x >= T0 for x in op[1]) or (op[0] == "remove_abs" and any(x >= T0 for x in pre_abs))
            reasons = set()
            for x in odd:
                owner, name = x.split(".", 1)
                if owner in sub_ids:
                    reasons.add("subproject-task-skipped")
                elif name == "placed_component_id_record":
                    reasons.add("workplace-content-log-not-edited")
                elif beyond:
                    reasons.add("step-beyond-end")
                else:
                    reasons.add("other")
            if not odd:
                reasons.add("time-differs-from-length" + (":step-beyond-end" if beyond else ""))
            mech = "C18/misaligned:" + "+".join(sorted(reasons))
            res.violate("C18", mech, "%s on a run of %d steps (absence before %s): log length changes %s, project.time=%r" % (
                op, T0, pre_abs, {d: v[:3] for d, v in deltas.items()}, p.time), op=op)
            break
        if op[0] == "insert_abs":
            new = [x for x in sorted(op[1]) if x not in pre_abs]
            pos = []
            ln = T0
            for x in new:
                if x < ln:
                    pos.append(x)
                    ln += 1
            for x in pos:
                for a, b, l in B.all_logs(p):
                    if b == "cost_list":
                        res.count("C18.inserted_cost_checks")
                        if x < len(l) and l[x] != 0.0:
                            res.violate("C18", "C18/inserted-step-has-cost", "%s: %s.cost_list[%d] = %r" % (op, a, x, l[x]))
                for a, b, l in B.all_logs(p):
                    if b == "state_record_list" and x < len(l):
                        res.count("C18.inserted_state_checks")
                        if getattr(l[x], "name", "") == "WORKING":
                            kind = {"T": "task", "C": "component", "W": "worker", "F": "facility"}.get(a.split(":")[0], a)
                            res.violate("C18", "C18/inserted-step-logged-WORKING:%s" % kind,
                                        "%s: %s is logged WORKING at the inserted (no-work) step %d" % (op, a, x))
                for t in p.workflow.task_list:
                    rl = t.remaining_work_amount_record_list
                    res.count("C18.inserted_work_checks")
                    if 0 < x < len(rl) and abs(rl[x] - rl[x - 1]) > TOL:
                        res.violate("C18", "C18/inserted-step-does-work", "%s: task %s remaining %r -> %r at inserted step %d" % (op, t.ID, rl[x - 1], rl[x], x))
    else:
        if case["kind"] == "roundtrip":
            after = B.dump(p, live=False)
            res.count("C18.roundtrip_comparisons")
            if after != before:
                d = B.first_diff(before, after)
                res.violate("C18", "C18/insert-then-remove-differs", "insert %s then remove: logs differ at %s (%r vs %r)" % (L, d[0], d[1], d[2]))
    res["nontrivial"] = bool(interior and placements)
    return res
