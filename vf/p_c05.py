"""C05: every feasible project completes (bounded progress); status truthful; never simulates at
or beyond max_time; unservable task => no success; no exception out of simulate()."""
import copy

from . import gen as G
from . import monitors as M
from .runner import rng_for, forward, Result, ns
from .p_forward import pairs

P = ns.BaseProjectStatus


class StepLog(object):
    def __init__(self):
        self.steps = []

    def on_phase(self, tr, project, phase, snap):
        if phase == "recorded":
            self.steps.append(snap.step)


def gen_specialist(rng):
    """Feasible class 1 (FS/SS only, every task has an eligible worker who is eventually present): one specialist
    who can do everything and is individually absent now and then, helpers for some of the tasks (so that a task's
    last unit of work is often done by a helper while the specialist is away), and tasks that only the specialist
    can do."""
    n = rng.randint(3, 6)
    tasks = []
    for k in range(n):
        deps = []
        for j in range(k):
            if rng.random() < (0.5 if j == k - 1 else 0.15):
                deps.append([j, rng.choice([G.FS, G.FS, G.SS])])
        tasks.append(G._simple_task(k, rng.choice([1, 2, 2, 3, 4]), deps))
    spec_w = G._worker(0, 0, {"t%d" % k: rng.choice([1.0, 1.0, 2.0]) for k in range(n)}, cost=1.0)
    spec_w["absence"] = sorted(rng.sample(range(0, 12), rng.randint(1, 5)))
    workers = [spec_w]
    only_specialist = set(rng.sample(range(n), rng.randint(1, max(1, n // 2))))
    for j in range(rng.randint(1, 3)):
        sk = {"t%d" % k: rng.choice([0.5, 1.0, 1.0, 2.0]) for k in range(n) if k not in only_specialist and rng.random() < 0.7}
        w = G._worker(0, j + 1, sk, cost=1.0)
        if rng.random() < 0.3:
            w["absence"] = sorted(rng.sample(range(0, 12), rng.randint(1, 3)))
        workers.append(w)
    teams = [dict(name="team0", id="TM0", targets=list(range(n)), workers=workers)]
    spec = dict(tasks=tasks, comps=[], wps=[], teams=teams,
                sim=dict(rule=rng.randrange(9), absence=[], auto_flag=False, max_time=0), feasible_class=1)
    if rng.random() < 0.3:
        spec["sim"]["absence"] = sorted(rng.sample(range(0, 12), rng.randint(1, 3)))
    spec["sim"]["max_time"] = G.feasible_bound(spec)
    return spec


def make_case(prop, seed, i, tier):
    rng = rng_for(prop, seed, i)
    if i >= len(pairs()) and i % 10 == 7:
        spec = gen_specialist(rng)
        if i % 20 == 17:
            # the same class, beyond the usual sizes: a run of hundreds of steps in which the specialist (or the
            # whole project) is away for a hundred and more consecutive steps
            f = rng.choice([20.0, 40.0])
            for t in spec["tasks"]:
                t["work"] = t["work"] * f
            a0 = rng.choice([5, 25, 60])
            block = list(range(a0, a0 + rng.choice([100, 101, 125, 140])))
            if rng.random() < 0.5:
                spec["teams"][0]["workers"][0]["absence"] = block
            else:
                spec["sim"]["absence"] = block
            spec["sim"]["max_time"] = G.feasible_bound(spec)
            return dict(prop=prop, i=i, kind="feasible", source="feasible-specialist-long", spec=spec)
        return dict(prop=prop, i=i, kind="feasible", source="feasible-specialist", spec=spec)
    if i >= len(pairs()) and i % 20 == 3:
        # the specialist joins the team only at a pause: feasible from then on
        return dict(prop=prop, i=i, kind="late-worker", source="feasible-specialist-joins-at-pause", spec=gen_specialist(rng), k=rng.choice([1, 2, 3, 5]))
    if i >= len(pairs()) and i % 20 == 13:
        # wide and finish-gated models with a worker per task (class 2), status cases on other large models
        kind = rng.choice(["wide", "ff_chain", "one_component", "long", "many_resources"])
        spec = G.gen_scale(rng, kind)
        if kind in ("wide", "ff_chain"):
            spec["sim"]["absence"] = []
            spec["sim"]["max_time"] = G.feasible_bound(spec)
            spec["feasible_class"] = 2
            return dict(prop=prop, i=i, kind="feasible", source="scale:" + kind, spec=spec)
        return dict(prop=prop, i=i, kind="status", source="scale:" + kind, spec=spec)
    if i < len(pairs()):
        spec = copy.deepcopy(pairs()[i])
        sh = spec["shape"]
        spec["sim"]["rule"] = rng.randrange(9)
        in_class = (not sh["shared"]) or sh["kind"] in (G.FS, G.SS)
        spec["sim"]["max_time"] = G.feasible_bound(spec)
        return dict(prop=prop, i=i, kind="feasible" if in_class else "status", source="shape-pair", spec=spec)
    r = rng.random()
    if r < 0.55:
        spec = G.gen_feasible(rng)
        return dict(prop=prop, i=i, kind="feasible", source="feasible-%d" % spec["feasible_class"], spec=spec)
    if r < 0.65:
        spec = G.shape_chains(rng, 1)[0]   # every task has its own worker: class 2
        spec["sim"]["max_time"] = G.feasible_bound(spec)
        return dict(prop=prop, i=i, kind="feasible", source="shape-chain", spec=spec)
    spec = G.gen_random(rng, G.profile(facility_rich=rng.random() < 0.3))
    if r < 0.82:
        cand = [k for k, t in enumerate(spec["tasks"]) if not t["auto"] and t["progress"] < 1.0 and t["work"] > 0]
        if cand:
            k = rng.choice(cand)
            nm = spec["tasks"][k]["name"]
            how = rng.choice(["skill", "team", "fixed", "fixed-empty"])
            if how == "skill":
                for tm in spec["teams"]:
                    for w in tm["workers"]:
                        if nm in w["skills"]:
                            if rng.random() < 0.5:
                                w["skills"][nm] = 0.0
                            else:
                                del w["skills"][nm]
            elif how == "team":
                for tm in spec["teams"]:
                    if k in tm["targets"]:
                        tm["targets"].remove(k)
            elif how == "fixed-empty":
                spec["tasks"][k]["fixed_workers"] = []
            else:
                spec["tasks"][k]["fixed_workers"] = ["NOBODY"]
            return dict(prop=prop, i=i, kind="unservable", source="random-unservable-" + how, spec=spec, victim=k)
    if rng.random() < 0.4:
        spec["sim"]["max_time"] = rng.choice([0, 1, 2, 3, 5, 8])
    if rng.random() < 0.35:
        # a zero-work automatic milestone at the very end: the last task to finish needs no work at all
        n = len(spec["tasks"])
        ms = G._simple_task(n, 0.0, [[n - 1, rng.choice([G.FS, G.FF])]], auto=True)
        spec["tasks"].append(ms)
        if spec.get("task_order"):
            spec["task_order"] = spec["task_order"] + [n] if rng.random() < 0.5 else [n] + spec["task_order"]
    return dict(prop=prop, i=i, kind="status", source="random", spec=spec)


def run_late_worker(case, res):
    from . import instr as I
    from . import build as B
    from .runner import exc_info
    spec = case["spec"]
    I.install()
    I.set_order(I.default_order(spec))
    m = B.build(spec)
    p = m.project
    team = p.organization.team_list[0]
    late = team.worker_list.pop(0)            # the specialist is not yet a member
    res["source"] = case.get("source")
    res.count("C05.runs")
    res.count("C05.kind.late-worker")
    try:
        B.run(p, spec, max_time=case["k"])
        n_ = len(p.cost_list)
        late.state_record_list = [ns.BaseWorkerState.FREE] * n_
        late.cost_list = [0.0] * n_
        late.assigned_task_id_record = [[] for _ in range(n_)]
        team.add_worker(late)
        B.run(p, spec, initialize_state_info=False, initialize_log_info=False, max_time=spec["sim"]["max_time"] + case["k"])
    except Exception as e:
        err = exc_info(e)
        res["aborted"] = err
        res.violate("C05", "C05/exception-from-simulate:%s:%s:late-worker" % (err["type"], err["where"]), "simulate() raised %s: %s" % (err["type"], err["msg"]))
        return res
    res.count("C05.feasible_runs")
    res.count("C05.status_checks")
    if p.status != P.FINISHED_SUCCESS:
        stuck = [(t.ID, t.state.name, t.remaining_work_amount) for t in p.workflow.task_list if t.state != M.TS.FINISHED]
        res.violate("C05", "C05/feasible-project-did-not-complete:worker-joined-at-pause",
                    "the only worker for some tasks joined his team at the pause (step %d); the resumed run returned %s at time %d (bound %d); stuck tasks %s" % (
                        case["k"], p.status.name, p.time, spec["sim"]["max_time"] + case["k"], stuck[:6]))
    res["nontrivial"] = True
    res["status"] = int(p.status)
    res["time"] = p.time
    return res


def run_case(case):
    spec = case["spec"]
    res = Result(case)
    if case["kind"] == "late-worker":
        return run_late_worker(case, res)
    if case["kind"] == "status" and case["i"] % 5 == 2:
        # max_time exactly at the makespan of this model (one less / equal / one more)
        from . import build as B_
        from . import instr as I_
        I_.install()
        I_.set_order(I_.default_order(spec))
        try:
            m0 = B_.build(spec)
            B_.run(m0.project, spec, max_time=400)
            if m0.project.status == P.FINISHED_SUCCESS:
                spec = copy.deepcopy(spec)
                spec["sim"]["max_time"] = max(0, m0.project.time + [-1, 0, 1][(case["i"] // 5) % 3])
                res.count("C05.max_time_at_the_makespan")
        except Exception:
            pass
    sl = StepLog()
    m, tr, err = forward(spec, lambda started: [sl])
    res["source"] = case.get("source")
    res.count("C05.runs")
    res.count("C05.kind." + case["kind"])
    if err is not None:
        res.absorb(tr, props=("C05",))
        res["aborted"] = err
        nested = any(c["children"] for c in spec["comps"])
        res.violate("C05", "C05/exception-from-simulate:%s:%s%s" % (err["type"], err["where"], ":nested-product" if nested else ""),
                    "simulate() raised %s: %s (%s)" % (err["type"], err["msg"], err["where"]), stack=err["stack"])
        return res
    p = m.project
    M.check_status(tr, p, spec["sim"]["max_time"], sl.steps)
    res.absorb(tr, props=("C05",))
    allfin = all(t.state == M.TS.FINISHED for t in p.workflow.task_list)
    if case["kind"] == "feasible":
        res.count("C05.feasible_runs")
        kinds = set(k for t in spec["tasks"] for _, k in t["deps"])
        if p.status != P.FINISHED_SUCCESS:
            stuck = [t for t in p.workflow.task_list if t.state != M.TS.FINISHED]
            mech = "C05/feasible-project-did-not-complete"
            # sub-classify by the blocking dependency (witness facts, not inputs)
            why = set()
            for t in stuck:
                for pred, dep in t.input_task_list:
                    if dep == M.DEP.SS and t.state == M.TS.NONE and pred.state == M.TS.FINISHED:
                        why.add("SS-pred-already-FINISHED")
                    if dep == M.DEP.SF and t.state == M.TS.WORKING and t.remaining_work_amount <= 1e-10 and pred.state == M.TS.FINISHED:
                        why.add("SF-pred-already-FINISHED")
            if why:
                mech += ":" + "+".join(sorted(why))
            res.violate("C05", mech,
                        "feasible model (class %s) returned %s at time %d (bound %d); stuck tasks %s" % (
                            spec.get("feasible_class", "shape"), p.status.name, p.time, spec["sim"]["max_time"],
                            [(t.ID, t.state.name, t.remaining_work_amount) for t in stuck][:6]))
        if kinds - {G.FS}:
            res.count("C05.feasible_with_nonFS")
    if case["kind"] == "unservable":
        res.count("C05.unservable_runs")
        victim = m.tasks[case["victim"]]
        if p.status == P.FINISHED_SUCCESS:
            res.violate("C05", "C05/success-with-unservable-task",
                        "task %s has no eligible worker but the project reports SUCCESS (task state %s)" % (victim.ID, victim.state.name))
    # ---- the same project used again: plain second run / written and read back into the same BaseProject
    # object / continued although complete. Same verdicts on the later call.
    if case["i"] % 3 == 0 and not res["violations"]:
        from .history import Hist
        from .runner import resimulate
        first_status, first_time = p.status, p.time
        how = ["again", "reload", "continue"][(case["i"] // 3) % 3]
        sl2 = StepLog()
        err2 = None
        if how == "reload":
            err2 = Hist(spec, order=False, model=m).do(["reload"])
        if err2 is None:
            kw = dict(initialize_state_info=False, initialize_log_info=False) if how == "continue" else None
            tr2, err2 = resimulate(m, spec, lambda started: [sl2], sim_kw=kw)
        res.count("C05.later_calls." + how)
        if err2 is not None:
            res.violate("C05", "C05/exception-from-simulate:%s:%s:later-call-%s" % (err2["type"], err2["where"], how),
                        "simulate() (%s) raised %s: %s" % (how, err2["type"], err2["msg"]))
        else:
            M.check_status(tr2, p, spec["sim"]["max_time"], sl2.steps if how != "continue" else None, time_before=first_time)
            res.absorb(tr2, props=("C05",))
            if how == "continue" and first_status == P.FINISHED_SUCCESS and (p.status != P.FINISHED_SUCCESS or p.time != first_time):
                res.violate("C05", "C05/continued-complete-project-not-complete",
                            "continuing a complete project (time %d) ended with %s at time %d" % (first_time, p.status.name, p.time))
            if how != "continue" and (p.status != first_status):
                res.violate("C05", "C05/later-call-ends-differently:%s" % how,
                            "first run ended %s at %d, the %s run on the same project ended %s at %d" % (first_status.name, first_time, how, p.status.name, p.time))
    # non-trivial: >= 1 non-FS edge or a worker shared by >= 2 tasks
    nonfs = any(k != G.FS for t in spec["tasks"] for _, k in t["deps"])
    shared = False
    for tm in spec["teams"]:
        for w in tm["workers"]:
            n = sum(1 for k in tm["targets"] if w["skills"].get(spec["tasks"][k]["name"], 0) > 0 and not spec["tasks"][k]["auto"])
            shared = shared or n >= 2
    res["nontrivial"] = bool(nonfs or shared)
    res["status"] = int(p.status)
    res["time"] = p.time
    return res
