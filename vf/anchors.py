"""Anchor coverage: which lines of the mechanisms a property is anchored in were really executed
by the workload.  sys.monitoring LINE events (Python >= 3.12) restricted to pDESy/model/*.py,
DISABLE after the first hit of each line (about one event per line per process)."""
import ast
import json
import os
import re
import sys

from .common import REPO, VERIF_DIR

_lines = {}      # filename -> set(lineno)
_on = [False]


def start():
    mon = getattr(sys, "monitoring", None)
    if mon is None or _on[0]:
        return False
    tool = mon.COVERAGE_ID
    try:
        mon.use_tool_id(tool, "vf-anchors")
    except ValueError:
        return False
    root = os.path.join(os.path.realpath(REPO), "pDESy", "model") + os.sep

    def on_line(code, lineno):
        fn = code.co_filename
        if fn.startswith(root) or os.path.realpath(fn).startswith(root):
            _lines.setdefault(os.path.basename(fn), set()).add(lineno)
        return mon.DISABLE

    mon.register_callback(tool, mon.events.LINE, on_line)
    mon.set_events(tool, mon.events.LINE)
    _on[0] = True
    return True


def executed():
    return {k: sorted(v) for k, v in _lines.items()}


def functions_of(path):
    """{qualified name: (first line, last line, set of statement lines)} for a source file."""
    out = {}
    try:
        tree = ast.parse(open(path).read())
    except (OSError, SyntaxError):
        return out

    def walk(node, prefix):
        for ch in ast.iter_child_nodes(node):
            if isinstance(ch, ast.ClassDef):
                walk(ch, prefix + ch.name + ".")
            elif isinstance(ch, (ast.FunctionDef, ast.AsyncFunctionDef)):
                stm = set()
                for n in ast.walk(ch):
                    if isinstance(n, ast.stmt) and n is not ch and not (
                            isinstance(n, ast.Expr) and isinstance(getattr(n, "value", None), ast.Constant) and isinstance(n.value.value, str)):
                        stm.add(n.lineno)
                out[prefix + ch.name] = (ch.lineno, ch.end_lineno, stm)
                walk(ch, prefix + ch.name + ".")
    walk(tree, "")
    return out


def anchor_report(prop, merged):
    """merged: {basename: set(lines)} -> list of dict(anchor, function, lines_executed, lines_total)."""
    anchors = []
    for l in open(os.path.join(VERIF_DIR, "properties.jsonl")):
        d = json.loads(l)
        if d["id"] == prop:
            anchors = d["anchors"].get("mechanism", [])
    rep = []
    cache = {}
    for a in anchors:
        where = a.get("where", "")
        m = re.match(r"(pDESy/model/[a-z_]+\.py)", where)
        if not m:
            continue
        rel = m.group(1)
        base = os.path.basename(rel)
        if rel not in cache:
            cache[rel] = functions_of(os.path.join(REPO, rel))
        funcs = cache[rel]
        names = re.findall(r"([A-Za-z_][A-Za-z0-9_]*(?:\.[A-Za-z_][A-Za-z0-9_]*)+|\b[a-z_]+[a-z0-9_]*\b(?=\s*\())", a.get("name", ""))
        chosen = []
        for nm in names:
            tail = nm.split(".")[-1]
            for q in funcs:
                if q == nm or q.endswith("." + tail) or q == tail:
                    if q not in chosen:
                        chosen.append(q)
        if not chosen:
            # fall back to the line numbers of the anchor (they refer to the pinned tree; fixes may have shifted them a little)
            nums = [int(x) for x in re.findall(r"(\d+)", where.split(":", 1)[1] if ":" in where else "")]
            for q, (a0, a1, stm) in funcs.items():
                if nums and a0 - 40 <= nums[0] <= a1 + 40 and any(a0 <= n + k <= a1 for n in nums[:1] for k in range(-40, 41)):
                    chosen.append(q)
                    break
        for q in chosen[:4]:
            a0, a1, stm = funcs[q]
            ex = merged.get(base, set())
            hit = len([x for x in stm if x in ex])
            rep.append(dict(anchor=a.get("name", "")[:90], function="%s:%s" % (base, q), lines_executed=hit, lines_total=len(stm)))
    return rep
