"""Orchestrator:  ./check <ID> [--tier quick|thorough] [--replay FILE] [--n N] [--workers W]"""
import argparse
import collections
import json
import os
import shutil
import subprocess
import sys
import time

HERE = os.path.dirname(os.path.abspath(__file__))
VERIF = os.path.dirname(HERE)
REPO = os.environ.get("VERIF_REPO", "/repo")
PY = os.environ.get("VERIF_PYTHON", "/venv/bin/python")

sys.path.insert(0, VERIF)
from vf import registry  # noqa: E402
from vf import meta  # noqa: E402


def worker_env():
    env = dict(os.environ)
    env["PYTHONPATH"] = REPO + os.pathsep + VERIF
    env["PDESY_VERIF"] = "1"
    env["PYTHONHASHSEED"] = env.get("VERIF_HASHSEED", "0")
    env["PYTHONDONTWRITEBYTECODE"] = "1"
    env["MPLBACKEND"] = "Agg"
    env["VERIF_REPO"] = REPO
    return env


def load_known():
    p = os.path.join(VERIF, "known_findings.json")
    if not os.path.exists(p):
        return {}
    data = json.load(open(p))
    out = {}
    for f in data.get("findings", []):
        if f.get("status") == "known":
            out[(f["property"], f["mechanism"])] = f
    return out


def classify(viol, known):
    return known.get((viol["property"], viol["mechanism"]))


def run_replay(prop, path):
    env = worker_env()
    code = ("import sys,json; sys.path.insert(0,%r); from vf import registry; m=registry.module(%r); "
            "d=json.load(open(%r)); r=m.run_case(d['case']); print(json.dumps(r, default=str))") % (VERIF, prop, path)
    pr = subprocess.run([PY, "-c", code], env=env, capture_output=True, text=True, timeout=1800)
    if pr.returncode != 0:
        print(pr.stderr[-3000:])
        print("INCONCLUSIVE property=%s replay harness failed" % prop)
        return 2
    res = json.loads(pr.stdout.strip().splitlines()[-1])
    known = load_known()
    bad = 0
    for v in res.get("violations", []):
        k = classify(v, known)
        if k is not None:
            print("KNOWN-FINDING: property=%s %s :: %s" % (prop, v["mechanism"], v["msg"]))
        else:
            bad += 1
            print("  violation %s: %s" % (v["mechanism"], v["msg"]))
    if bad:
        print("VIOLATION property=%s replay=%s" % (prop, path))
        return 1
    print("replay: no unlisted violation reproduced (%d listed)" % len(res.get("violations", [])))
    return 0


def main():
    ap = argparse.ArgumentParser()
    ap.add_argument("prop")
    ap.add_argument("--tier", default=os.environ.get("VERIF_TIER", "quick"), choices=["quick", "thorough"])
    ap.add_argument("--replay")
    ap.add_argument("--n", type=int)
    ap.add_argument("--workers", type=int)
    ap.add_argument("--no-known", action="store_true", help="audit mode: ignore known_findings.json")
    a = ap.parse_args()
    prop = a.prop
    if prop not in registry.TABLE:
        print("unknown property %s" % prop)
        return 2
    if a.replay:
        return run_replay(prop, a.replay)
    seed = int(os.environ.get("VERIF_SEED", "0"))
    tier = a.tier
    N = a.n or registry.budget(prop, tier)
    W = a.workers or (8 if tier == "quick" else 16)
    W = max(1, min(W, N))
    deadline = float(os.environ.get("VERIF_DEADLINE", "150" if tier == "quick" else "1500"))
    outbase = os.environ.get("VERIF_OUTDIR", os.path.join(VERIF, "out"))
    evdir = os.environ.get("VERIF_EVIDENCE_DIR", os.path.join(VERIF, "evidence"))
    if (a.n or a.no_known) and "VERIF_EVIDENCE_DIR" not in os.environ:
        evdir = os.path.join(outbase, "adhoc_evidence")   # ad-hoc runs never touch the committed evidence
    outdir = os.path.join(outbase, prop)
    shutil.rmtree(outdir, ignore_errors=True)
    os.makedirs(outdir, exist_ok=True)
    os.makedirs(evdir, exist_ok=True)
    t0 = time.time()
    env = worker_env()
    procs = []
    for j in range(W):
        out = os.path.join(outdir, "w%d.jsonl" % j)
        log = open(os.path.join(outdir, "w%d.log" % j), "w")
        p = subprocess.Popen([PY, "-m", "vf.worker", prop, tier, str(seed), str(j), str(W), str(N), out, str(deadline)],
                             env=env, cwd=VERIF, stdout=log, stderr=subprocess.STDOUT)
        procs.append((p, out, log))
    dead = []
    for p, out, log in procs:
        try:
            rc = p.wait(timeout=deadline * 3 + 300)
        except subprocess.TimeoutExpired:
            p.kill()
            rc = -9
        log.close()
        if rc != 0:
            dead.append((out, rc))
    # ---- aggregate
    counters = collections.Counter()
    cases = 0
    hashes_nt = set()
    hashes_all = set()
    viols = []
    aborted = 0
    abort_kinds = collections.Counter()
    harness_errors = []
    samples = []
    sources = collections.Counter()
    deadline_hit = 0
    extra = {}
    anchor_lines = {}
    for p, out, log in procs:
        if not os.path.exists(out):
            continue
        for line in open(out):
            try:
                r = json.loads(line)
            except ValueError:
                continue
            k = r.get("kind")
            if k == "hello":
                if os.path.realpath(r["repo"]) != os.path.realpath(REPO):
                    harness_errors.append("worker imported pDESy from %s" % r["repo"])
                continue
            if k == "deadline":
                deadline_hit += 1
                continue
            if k == "anchors":
                for fn, ls in r.get("lines", {}).items():
                    anchor_lines.setdefault(fn, set()).update(ls)
                continue
            if k != "case":
                continue
            cases += 1
            if r.get("harness_error"):
                harness_errors.append(r["harness_error"])
                continue
            for ck, cv in r.get("counters", {}).items():
                counters[ck] += cv
            hashes_all.add(r.get("hash"))
            if r.get("nontrivial"):
                hashes_nt.add(r.get("hash"))
            if r.get("aborted"):
                aborted += 1
                ab = r["aborted"]
                abort_kinds["%s@%s" % (ab.get("type"), ab.get("where"))] += 1
            if r.get("source"):
                sources[r["source"]] += 1
            for v in r.get("violations", []):
                viols.append((v, r.get("case"), r.get("i")))
            if "sample" in r and len(samples) < 3:
                samples.append(r["sample"])
            for ek, ev in (r.get("extra") or {}).items():
                extra.setdefault(ek, collections.Counter()).update(ev if isinstance(ev, dict) else {str(ev): 1})
    known = {} if a.no_known else load_known()
    unknown = [(v, c, i) for v, c, i in viols if classify(v, known) is None]
    listed = [(v, c, i) for v, c, i in viols if classify(v, known) is not None]
    # ---- replay files
    replays = {}
    by_mech = collections.OrderedDict()
    for v, c, i in unknown:
        by_mech.setdefault(v["mechanism"], []).append((v, c, i))
    n = 0
    for mech, lst in by_mech.items():
        for v, c, i in lst[:3]:
            path = os.path.join(outdir, "replay_%d.json" % n)
            json.dump(dict(property=prop, mechanism=mech, violation=v, case=c), open(path, "w"), indent=1, default=str)
            replays.setdefault(mech, []).append(path)
            n += 1
    # ---- floors / verdict
    inconclusive = []
    if dead:
        inconclusive.append("worker(s) died or timed out: %s" % dead)
    if harness_errors:
        inconclusive.append("%d harness errors, first: %s" % (len(harness_errors), harness_errors[0][-600:]))
    if cases and aborted > 0.2 * cases:
        inconclusive.append("%d of %d cases aborted by an exception" % (aborted, cases))
    scale = min(1.0, cases / float(N)) if N else 1.0
    if not a.n:
        for key, q, t in registry.FLOORS.get(prop, []):
            need = q if tier == "quick" else t
            if counters.get(key, 0) < need * 0.5 * scale:
                inconclusive.append("floor not met: %s = %d < %d" % (key, counters.get(key, 0), need))
    if cases == 0:
        inconclusive.append("no case ran")
    wall = time.time() - t0
    listed_mechs = collections.Counter(v["mechanism"] for v, c, i in listed)
    cov = dict(
        evaluations=cases,
        distinct_nontrivial=len(hashes_nt),
        distinct_cases=len(hashes_all),
        rule=registry.RULE.get(prop, ""),
        samples=samples[:2] or [dict(note="no sample captured")],
        monitor_counters=dict(sorted(counters.items())),
        case_sources=dict(sources),
        aborted_cases=aborted,
        abort_kinds=dict(abort_kinds),
        workers=W, planned_cases=N, deadline_hit_workers=deadline_hit,
        known_findings_observed=dict(listed_mechs),
        unlisted_violation_mechanisms={m: len(l) for m, l in by_mech.items()},
        inconclusive_reasons=inconclusive,
        exhaustive=bool(meta.EXHAUSTIVE.get(prop, False)) and not deadline_hit,
    )
    for ek, ev in extra.items():
        cov[ek] = dict(ev)
    try:
        from vf import anchors
        cov["anchor_coverage"] = anchors.anchor_report(prop, anchor_lines)
        cov["model_lines_executed"] = {fn: len(ls) for fn, ls in sorted(anchor_lines.items())}
    except Exception as e:  # evidence nicety only
        cov["anchor_coverage_error"] = repr(e)
    ev = dict(property_id=prop, tier=tier, seed=seed, level=meta.LEVEL.get(prop, "exploration"), coverage=cov,
              assumptions=meta.ASSUMPTIONS.get(prop, []) + meta.COMMON_ASSUMPTIONS,
              wall_s=round(wall, 2), violations=len(unknown))
    json.dump(ev, open(os.path.join(evdir, prop + ".json"), "w"), indent=1, default=str)
    # ---- report
    print("%s tier=%s seed=%d: %d cases (%d distinct non-trivial), %d aborted, %.1fs" % (
        prop, tier, seed, cases, len(hashes_nt), aborted, wall))
    keys = [k for k in sorted(counters) if k.startswith(prop + ".")][:40]
    print("  observed: " + ", ".join("%s=%d" % (k[len(prop) + 1:], counters[k]) for k in keys))
    for mech, cnt in sorted(listed_mechs.items()):
        f = known[(prop, mech)]
        print("KNOWN-FINDING: property=%s %s (%s; observed %d times in this run)" % (prop, mech, f.get("what", ""), cnt))
    if unknown:
        for mech, lst in by_mech.items():
            print("  unlisted violation [%s] x%d e.g. %s" % (mech, len(lst), lst[0][0]["msg"]))
            print("VIOLATION property=%s replay=%s" % (prop, replays[mech][0]))
        return 1
    if inconclusive:
        for r in inconclusive:
            print("INCONCLUSIVE property=%s %s" % (prop, r))
        return 2
    print("HELD property=%s on everything explored" % prop)
    return 0


if __name__ == "__main__":
    sys.exit(main())
