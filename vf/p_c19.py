"""C19: Gantt data, state queries and dates report exactly what the logs contain."""
import datetime
import itertools

from . import gen as G
from . import build as B
from . import instr as I
from .runner import rng_for, Result, ns, exc_info

TS, CS, WS, FS_ = ns.BaseTaskState, ns.BaseComponentState, ns.BaseWorkerState, ns.BaseFacilityState
MARGINS = [0.0, 0.5, 1.0, 2.0]
FMT = "%Y-%m-%d %H:%M:%S"

CLASSES = {
    "task": (lambda: ns.BaseTask("t"), [TS.NONE, TS.READY, TS.WORKING, TS.FINISHED], [TS.READY, TS.WORKING]),
    "component": (lambda: ns.BaseComponent("c"), [CS.NONE, CS.READY, CS.WORKING, CS.FINISHED], [CS.READY, CS.WORKING]),
    "worker": (lambda: ns.BaseWorker("w"), [WS.FREE, WS.WORKING, WS.ABSENCE], [WS.FREE, WS.WORKING, WS.ABSENCE]),
    "facility": (lambda: ns.BaseFacility("f"), [FS_.FREE, FS_.WORKING, FS_.ABSENCE], [FS_.FREE, FS_.WORKING, FS_.ABSENCE]),
}


def rle(seq, state, margin):
    """Reference run-length encoder: maximal runs of `state` as (start, last - start + margin)."""
    out, i, n = [], 0, len(seq)
    while i < n:
        if seq[i] == state:
            j = i
            while j + 1 < n and seq[j + 1] == state:
                j += 1
            out.append((i, j - i + margin))
            i = j + 1
        else:
            i += 1
    return out


def check_encoder(res, kind, obj, seq, margin, assign=True):
    if assign:
        obj.state_record_list = list(seq)
    _, _, targets = CLASSES[kind]
    try:
        got = obj.get_time_list_for_gannt_chart(finish_margin=margin)
    except Exception as e:
        ei = exc_info(e)
        res.violate("C19", "C19/gantt-encoder-raises:%s:%s" % (kind, ei["type"]), "%s log %s margin %r raised %s" % (kind, [getattr(s, "name", s) for s in seq], margin, ei["msg"]))
        return False
    res.count("C19.encoder_checks")
    for lst, st in zip(got, targets):
        exp = rle(seq, st, margin)
        if list(map(tuple, lst)) != exp:
            res.violate("C19", "C19/gantt-intervals:%s:%s" % (kind, st.name),
                        "%s log %s, margin %r: %s intervals %r, maximal runs are %r" % (kind, [getattr(s, "name", s) for s in seq], margin, st.name, lst, exp))
            return False
    return True


def make_case(prop, seed, i, tier):
    rng = rng_for(prop, seed, i)
    maxL = 6 if tier == "quick" else 8
    combos = [(k, L) for k in ("task", "component", "worker", "facility") for L in range(0, maxL + 1)]
    if i < len(combos):
        k, L = combos[i]
        return dict(prop=prop, i=i, kind="exhaustive", cls=k, L=L)
    r = rng.random()
    if r < 0.45:
        return dict(prop=prop, i=i, kind="random", rseed=rng.randrange(10 ** 9))
    if r < 0.75:
        return dict(prop=prop, i=i, kind="queries", rseed=rng.randrange(10 ** 9))
    spec = G.gen_random(rng, G.profile(facility_rich=rng.random() < 0.4, max_time=50))
    if rng.random() < 0.12:
        G.add_idle_parts(rng, spec)
    elif rng.random() < 0.1:
        spec = G.gen_scale(rng, rng.choice(["long", "long", "many_resources", "one_component"]))    # logs of hundreds of steps, many objects
        if spec["scale"] == "long" and rng.random() < 0.5:
            spec["sim"]["max_time"] = rng.choice([257, 300, 420])      # stopped by max_time: logs that end in READY / WORKING
    return dict(prop=prop, i=i, kind="simlogs", spec=spec, rseed=rng.randrange(10 ** 9))


def check_rows(res, rows, exp, init, unit, what):
    """rows: list of dict(Start, Finish, State); exp: list of (state label, start, length)."""
    res.count("C19.row_checks", len(exp))
    want = sorted((lab, (init + s * unit).strftime(FMT), (init + (s + ln) * unit).strftime(FMT)) for lab, s, ln in exp)
    got = sorted((r["State"], r["Start"], r["Finish"]) for r in rows)
    if want != got:
        res.violate("C19", "C19/plotly-rows:" + what.split(":")[0], "%s: chart rows %r, expected %r" % (what, got[:6], want[:6]))


def random_part(case, res):
    import random
    rng = random.Random(case["rseed"])
    for _ in range(40):
        kind = rng.choice(sorted(CLASSES))
        mk, states, targets = CLASSES[kind]
        n = rng.randint(0, 60)
        if rng.random() < 0.08:
            n = rng.choice([255, 256, 257, 300, 600, 1500])      # long logs (runs of hundreds of steps)
        # long runs and frequent changes both
        seq = []
        while len(seq) < n:
            seq.extend([rng.choice(states)] * rng.randint(1, 6 if n < 255 else rng.choice([6, 40, 200])))
        seq = seq[:n]
        if rng.random() < 0.15:
            # equal values, other objects: plain ints (a log taken over without conversion) or the sibling enum
            # (the library itself stores BaseWorkerState members in facility logs when it appends a saved log)
            sib = {"task": CS, "component": TS, "worker": FS_, "facility": WS}[kind]
            seq = [int(x) if rng.random() < 0.5 else sib(int(x)) for x in seq]
            res.count("C19.encoder_logs_with_equal_but_foreign_members")
        margin = rng.choice(MARGINS)
        obj = mk()
        if not check_encoder(res, kind, obj, seq, margin):
            continue
        # the same object asked again after its log changed IN PLACE (same list object: entries overwritten,
        # appended, inserted, deleted) and with another margin
        for _again in range(rng.randint(0, 3)):
            log = obj.state_record_list
            how = rng.choice(["overwrite", "append", "insert", "delete", "margin", "reverse", "clear"])
            if how == "overwrite" and log:
                for _k in range(rng.randint(1, 3)):
                    log[rng.randrange(len(log))] = rng.choice(states)
            elif how == "append":
                log.extend([rng.choice(states)] * rng.randint(1, 3))
            elif how == "insert":
                log.insert(rng.randrange(len(log) + 1), rng.choice(states))
            elif how == "delete" and log:
                del log[rng.randrange(len(log))]
            elif how == "reverse":
                log.reverse()
            elif how == "clear" and rng.random() < 0.3:
                del log[:]
            elif how == "margin":
                margin = rng.choice(MARGINS)
            seq = list(log)
            res.count("C19.encoder_checks_after_in_place_change")
            if not check_encoder(res, kind, obj, seq, margin, assign=False):
                break
        # plotly rows: index k -> init + k * unit
        init = datetime.datetime(2020 + rng.randint(0, 3), rng.randint(1, 12), rng.randint(1, 28), rng.randint(0, 23), 0, 0)
        if rng.random() < 0.3:
            # charts that span a daylight-saving switch (last Sunday of March / October)
            init = rng.choice([datetime.datetime(2024, 3, 30, 20, 0, 0), datetime.datetime(2024, 3, 31, 1, 30, 0),
                               datetime.datetime(2024, 10, 26, 22, 0, 0), datetime.datetime(2023, 3, 25, 12, 0, 0)])
        unit = rng.choice([datetime.timedelta(minutes=1), datetime.timedelta(hours=1), datetime.timedelta(days=1), datetime.timedelta(minutes=90), datetime.timedelta(days=7)])
        if kind in ("task", "component"):
            view_ready = rng.random() < 0.5
            rows = obj.create_data_for_gantt_plotly(init, unit, finish_margin=margin, view_ready=view_ready)
            exp = [("WORKING", s, l) for s, l in rle(seq, targets[1], margin)]
            if view_ready:
                exp += [("READY", s, l) for s, l in rle(seq, targets[0], margin)]
            check_rows(res, rows, exp, init, unit, "%s:view_ready=%s" % (kind, view_ready))
        else:
            view_ready, view_abs = rng.random() < 0.5, rng.random() < 0.5
            if kind == "worker":
                grp = ns.BaseTeam("g", worker_list=[obj])
            else:
                grp = ns.BaseWorkplace("g", facility_list=[obj])
            rows = grp.create_data_for_gantt_plotly(init, unit, finish_margin=margin, view_ready=view_ready, view_absence=view_abs)
            exp = [("WORKING", s, l) for s, l in rle(seq, targets[1], margin)]
            if view_ready:
                exp += [("READY", s, l) for s, l in rle(seq, targets[0], margin)]
            if view_abs:
                exp += [("ABSENCE", s, l) for s, l in rle(seq, targets[2], margin)]
            check_rows(res, rows, exp, init, unit, "%s:view_ready=%s,view_absence=%s" % (kind, view_ready, view_abs))


def queries_part(case, res):
    import random
    rng = random.Random(case["rseed"])
    for _ in range(12):
        n = rng.randint(0, 7)
        T = rng.randint(0, 14)

        def seqs(states):
            out = []
            for _ in range(n):
                s = []
                while len(s) < T:
                    s.extend([rng.choice(states)] * rng.randint(1, 5))
                out.append(s[:T])
            return out
        times = [rng.randint(0, T + 2) for _ in range(rng.randint(0, 4))]
        if rng.random() < 0.3 and T > 2:
            a = rng.randint(0, T - 2)
            times = list(range(a, min(T, a + rng.randint(1, 4))))

        def oracle(objs, st):
            return sorted(id(o) for o in objs if all(t < len(o.state_record_list) and o.state_record_list[t] == st for t in times))

        # objects first, then the questions (asked again after the logs changed in place)
        tasks = []
        for k, s_ in enumerate(seqs(CLASSES["task"][1])):
            t = ns.BaseTask("t%d" % k)
            if rng.random() < 0.2:
                s_ = [int(x) for x in s_]      # e.g. a log taken over from a JSON file without conversion
                res.count("C19.logs_with_equal_but_foreign_members")
            t.state_record_list = s_
            tasks.append(t)
        wf = ns.BaseWorkflow(tasks)
        comps = []
        for k, s_ in enumerate(seqs(CLASSES["component"][1])):
            c = ns.BaseComponent("c%d" % k)
            c.state_record_list = s_
            comps.append(c)
        pr = ns.BaseProduct(comps)
        ws = []
        for k, s_ in enumerate(seqs(CLASSES["worker"][1])):
            w = ns.BaseWorker("w%d" % k)
            w.state_record_list = s_
            ws.append(w)
        tm = ns.BaseTeam("tm", worker_list=ws)
        fs = []
        for k, s_ in enumerate(seqs(CLASSES["facility"][1])):
            f = ns.BaseFacility("f%d" % k)
            if rng.random() < 0.3:
                # equal values, other objects: the sibling enum (the library itself stores BaseWorkerState
                # members in facility logs in append_project_log_from_simple_json) or plain ints
                s_ = [WS(int(x)) if rng.random() < 0.5 else int(x) for x in s_]
                res.count("C19.logs_with_equal_but_foreign_members")
            f.state_record_list = s_
            fs.append(f)
        wp = ns.BaseWorkplace("wp", facility_list=fs)

        def ask(again):
            for st, fn in ((TS.NONE, wf.extract_none_task_list), (TS.READY, wf.extract_ready_task_list),
                           (TS.WORKING, wf.extract_working_task_list), (TS.FINISHED, wf.extract_finished_task_list)):
                res.count("C19.query_checks")
                got = fn(list(times))
                if sorted(map(id, got)) != oracle(tasks, st):
                    res.violate("C19", "C19/extract-tasks:%s" % st.name, "extract %s tasks at %s%s: got %s, logs say %s" % (
                        st.name, times, again, sorted(t.name for t in got), sorted(t.name for t in tasks if id(t) in oracle(tasks, st))))
            for st, fn in ((CS.NONE, pr.extract_none_component_list), (CS.READY, pr.extract_ready_component_list),
                           (CS.WORKING, pr.extract_working_component_list), (CS.FINISHED, pr.extract_finished_component_list)):
                res.count("C19.query_checks")
                got = fn(list(times))
                if sorted(map(id, got)) != oracle(comps, st):
                    res.violate("C19", "C19/extract-components:%s" % st.name, "extract %s components at %s%s: got %s" % (st.name, times, again, sorted(c.name for c in got)))
            for st, fn in ((WS.FREE, tm.extract_free_worker_list), (WS.WORKING, tm.extract_working_worker_list)):
                res.count("C19.query_checks")
                got = fn(list(times))
                if sorted(map(id, got)) != oracle(ws, st):
                    res.violate("C19", "C19/extract-workers:%s" % st.name, "extract %s workers at %s%s: got %s" % (st.name, times, again, sorted(w.name for w in got)))
            for st, fn in ((FS_.FREE, wp.extract_free_facility_list), (FS_.WORKING, wp.extract_working_facility_list)):
                res.count("C19.query_checks")
                got = fn(list(times))
                if sorted(map(id, got)) != oracle(fs, st):
                    res.violate("C19", "C19/extract-facilities:%s" % st.name, "extract %s facilities at %s%s: got %s" % (st.name, times, again, sorted(f.name for f in got)))

        ask("")
        for _again in range(rng.randint(0, 2)):
            # logs changed in place (entries overwritten / appended), members added, other times asked
            for objs, states in ((tasks, CLASSES["task"][1]), (comps, CLASSES["component"][1]), (ws, CLASSES["worker"][1]), (fs, CLASSES["facility"][1])):
                for o in objs:
                    log = o.state_record_list
                    r_ = rng.random()
                    if r_ < 0.4 and log:
                        typ = type(log[0])
                        for _k in range(rng.randint(1, 3)):
                            v = rng.choice(states)
                            log[rng.randrange(len(log))] = v if isinstance(v, typ) else (typ(int(v)) if typ is not int else int(v))
                    elif r_ < 0.6:
                        log.append(rng.choice(states))
            if rng.random() < 0.4:
                t = ns.BaseTask("t_new")
                t.state_record_list = [rng.choice(CLASSES["task"][1]) for _ in range(T)]
                wf.append_child_task(t)
                tasks.append(t)
            if rng.random() < 0.5:
                times = [rng.randint(0, T + 2) for _ in range(rng.randint(0, 4))]
            res.count("C19.query_rounds_after_in_place_change")
            ask(" (asked again after the logs changed in place)")
        # set_last_datetime
        p = ns.BaseProject(init_datetime=datetime.datetime(2020, 1, 1), unit_timedelta=datetime.timedelta(days=1))
        p.time = rng.randint(1, 400)
        last = datetime.datetime(2021, rng.randint(1, 12), rng.randint(1, 28), rng.randint(0, 23), rng.randint(0, 59), 0)
        unit = rng.choice([None, datetime.timedelta(minutes=1), datetime.timedelta(hours=3), datetime.timedelta(days=1), datetime.timedelta(minutes=45)])
        setit = rng.random() < 0.5
        aware = rng.random() < 0.3
        if aware:
            # a date WITH a time zone that has daylight-saving time: chart rows map index k to init + k * unit in the
            # arithmetic of that datetime (wall clock), so the last step must fall on the given date in that arithmetic too
            from .common import rule_zone
            last = last.replace(tzinfo=rule_zone(), hour=rng.randint(3, 23))
            unit = rng.choice([None, datetime.timedelta(hours=3), datetime.timedelta(days=1), datetime.timedelta(hours=12)])
            res.count("C19.date_checks.time_zone_with_dst")
        old_init = p.init_datetime
        got = p.set_last_datetime(last, unit_timedelta=unit, set_init_datetime=setit)
        u = unit if unit is not None else datetime.timedelta(days=1)
        res.count("C19.date_checks")
        if got + (p.time - 1) * u != last:
            res.violate("C19", "C19/set-last-datetime", "time=%d unit=%s: start %s + (time-1)*unit = %s, expected %s" % (p.time, u, got, got + (p.time - 1) * u, last))
        if setit and p.init_datetime != got:
            res.violate("C19", "C19/set-last-datetime:init-not-set", "init_datetime %s != returned %s" % (p.init_datetime, got))
        if not setit and p.init_datetime != old_init:
            res.violate("C19", "C19/set-last-datetime:init-changed", "init_datetime changed although set_init_datetime=False")
        # ... and the chart row of a task that is WORKING at the last step only starts on the given date
        t_last = ns.BaseTask("last_step")
        t_last.state_record_list = [TS.NONE] * (p.time - 1) + [TS.WORKING]
        rows = t_last.create_data_for_gantt_plotly(got, u, finish_margin=1.0)
        res.count("C19.date_checks.row_of_last_step")
        if [r["Start"] for r in rows] != [last.strftime(FMT)]:
            res.violate("C19", "C19/set-last-datetime:last-row", "time=%d unit=%s last=%s: the chart row of the last step starts at %r" % (p.time, u, last, [r["Start"] for r in rows]))


def simlogs_part(case, res):
    import random
    rng = random.Random(case["rseed"])
    spec = case["spec"]
    I.install()
    I.set_order(I.default_order(spec))
    m = B.build(spec)
    try:
        B.run(m.project, spec)
    except Exception as e:
        res["aborted"] = exc_info(e)
        return
    p = m.project
    margin = rng.choice(MARGINS)
    for kind, objs in (("task", p.workflow.task_list), ("component", p.product.component_list),
                       ("worker", [w for tm in p.organization.team_list for w in tm.worker_list]),
                       ("facility", [f for wp in p.organization.workplace_list for f in wp.facility_list])):
        for o in objs:
            seq = list(o.state_record_list)
            saved = o.state_record_list
            check_encoder(res, kind, o, seq, margin)
            o.state_record_list = saved
            res.count("C19.real_log_checks")
    # aggregate chart data (workflow / product / organization level) = union of the rows of their members
    init = datetime.datetime(2021, 5, 6, 7, 0, 0)
    unit = rng.choice([datetime.timedelta(hours=1), datetime.timedelta(days=1), datetime.timedelta(minutes=30)])
    mg = rng.choice(MARGINS)
    vr, va = rng.random() < 0.5, rng.random() < 0.5

    def rows_of(name, seq, targets, kinds):
        out = []
        for lab, st in kinds:
            for s_, l_ in rle(seq, st, mg):
                out.append((name, lab, (init + s_ * unit).strftime(FMT), (init + (s_ + l_) * unit).strftime(FMT)))
        return out

    def norm_rows(rows):
        return sorted((r["Task"], r["State"], r["Start"], r["Finish"]) for r in rows)

    exp = []
    for t in p.workflow.task_list:
        exp += rows_of(t.name, list(t.state_record_list), None, [("WORKING", TS.WORKING)] + ([("READY", TS.READY)] if vr else []))
    got = p.workflow.create_data_for_gantt_plotly(init, unit, finish_margin=mg, view_ready=vr)
    res.count("C19.aggregate_row_checks")
    if norm_rows(got) != sorted(exp):
        res.violate("C19", "C19/plotly-rows:workflow-level", "workflow chart rows (margin %r, view_ready=%s) differ from the maximal runs of the task logs: %r vs %r" % (mg, vr, norm_rows(got)[:4], sorted(exp)[:4]))
    exp = []
    for c in p.product.component_list:
        exp += rows_of(c.name, list(c.state_record_list), None, [("WORKING", CS.WORKING)] + ([("READY", CS.READY)] if vr else []))
    got = p.product.create_data_for_gantt_plotly(init, unit, finish_margin=mg, view_ready=vr)
    res.count("C19.aggregate_row_checks")
    if norm_rows(got) != sorted(exp):
        res.violate("C19", "C19/plotly-rows:product-level", "product chart rows (margin %r, view_ready=%s) differ from the maximal runs of the component logs" % (mg, vr))
    exp = []
    for tm in p.organization.team_list:
        for w in tm.worker_list:
            exp += rows_of(tm.name + ": " + w.name, list(w.state_record_list), None,
                           [("WORKING", WS.WORKING)] + ([("READY", WS.FREE)] if vr else []) + ([("ABSENCE", WS.ABSENCE)] if va else []))
    for wp in p.organization.workplace_list:
        for f in wp.facility_list:
            exp += rows_of(wp.name + ": " + f.name, list(f.state_record_list), None,
                           [("WORKING", FS_.WORKING)] + ([("READY", FS_.FREE)] if vr else []) + ([("ABSENCE", FS_.ABSENCE)] if va else []))
    got = p.organization.create_data_for_gantt_plotly(init, unit, finish_margin=mg, view_ready=vr, view_absence=va)
    res.count("C19.aggregate_row_checks")
    if norm_rows(got) != sorted(exp):
        res.violate("C19", "C19/plotly-rows:organization-level", "organization chart rows (margin %r, view_ready=%s, view_absence=%s) differ from the maximal runs of the worker/facility logs" % (mg, vr, va))
    # dates after absence edits: the last logged step must fall on the requested date
    if p.time >= 2 and rng.random() < 0.6:
        T0 = p.time
        lst = rng.choice([[T0 - 1, T0], [1], [0, T0], [T0 - 1], [1, T0 - 1, T0, T0 + 1]])
        try:
            p.insert_absence_time_list(list(lst))
        except Exception:
            lst = None
        if lst is not None and p.workflow.task_list:
            n_steps = len(p.workflow.task_list[0].state_record_list)
            last = datetime.datetime(2022, 3, 4, 5, 0, 0)
            unit = rng.choice([datetime.timedelta(hours=1), datetime.timedelta(days=1), datetime.timedelta(minutes=20)])
            start = p.set_last_datetime(last, unit_timedelta=unit)
            res.count("C19.date_checks_after_absence_edit")
            if n_steps >= 1 and start + (n_steps - 1) * unit != last:
                res.violate("C19", "C19/set-last-datetime:after-absence-edit",
                            "after insert_absence_time_list(%s) the logs have %d steps; start %s + (steps-1)*unit = %s, requested last date %s" % (
                                lst, n_steps, start, start + (n_steps - 1) * unit, last))
    T = p.time
    for _ in range(6):
        times = sorted(set(rng.randint(0, max(0, T)) for _ in range(rng.randint(1, 3))))
        for st, fn in ((TS.READY, p.workflow.extract_ready_task_list), (TS.WORKING, p.workflow.extract_working_task_list),
                       (TS.FINISHED, p.workflow.extract_finished_task_list), (TS.NONE, p.workflow.extract_none_task_list)):
            res.count("C19.query_checks")
            got = fn(list(times))
            exp = sorted(id(t) for t in p.workflow.task_list if all(k < len(t.state_record_list) and t.state_record_list[k] == st for k in times))
            if sorted(map(id, got)) != exp:
                res.violate("C19", "C19/extract-tasks:%s" % st.name, "real logs: extract %s tasks at %s: got %s" % (st.name, times, sorted(t.ID for t in got)))


def run_case(case):
    from .common import local_timezone
    tz = local_timezone.DST if case["i"] % 5 == 1 else None
    with local_timezone(tz):
        res = _run_case(case)
        if tz:
            res.count("C19.cases_under_a_daylight_saving_time_zone")
    return res


def _run_case(case):
    res = Result(case)
    res["source"] = case["kind"]
    if case["kind"] == "exhaustive":
        mk, states, targets = CLASSES[case["cls"]]
        obj = mk()
        n = 0
        for seq in itertools.product(states, repeat=case["L"]):
            for margin in MARGINS:
                check_encoder(res, case["cls"], obj, list(seq), margin)
            n += 1
            if len(set(seq)) >= 2:
                pass
        res.count("C19.exhaustive_sequences", n)
        res.count("C19.exhaustive_chunks")
        res["nontrivial"] = case["L"] >= 3
        res["extra"] = {"exhaustive_chunks_done": {"%s:L=%d" % (case["cls"], case["L"]): 1}}
    elif case["kind"] == "random":
        random_part(case, res)
        res["nontrivial"] = True
    elif case["kind"] == "queries":
        queries_part(case, res)
        res["nontrivial"] = True
    else:
        simlogs_part(case, res)
        res["nontrivial"] = True
    return res
