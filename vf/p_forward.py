"""C01, C02, C03, C04, C06, C07, C13, C14: one monitored forward simulation per case."""
import copy

from . import gen as G
from . import monitors as M
from . import build as B
from .runner import rng_for, forward, resimulate, Result, ns

_PAIRS = None
_FIX = None


def pairs():
    global _PAIRS
    if _PAIRS is None:
        _PAIRS = G.shape_pairs()
    return _PAIRS


def fixtures():
    global _FIX
    if _FIX is None:
        _FIX = G.fixture_specs()
    return _FIX


PROFILE = {
    "C01": dict(),
    "C02": dict(),
    "C03": dict(min_tasks=3, p_res_absence=0.4),
    "C04": dict(p_res_absence=0.45),
    "C06": dict(),
    "C07": dict(),
    "C13": dict(min_tasks=2, two_parents=0.25),
    "C14": dict(min_tasks=2),
}
FACILITY_RICH_SHARE = {"C13": 0.7, "C04": 0.4, "C03": 0.45, "C06": 0.4, "C14": 0.4}
USE_PAIRS = ("C01", "C02", "C06")


def pick_variant(prop, rng, scale=1.0):
    r = rng.random()
    shares = [("resim", 0.10), ("resume", 0.16 if prop == "C02" else 0.10), ("keeplog", 0.06), ("edit_resim", 0.06),
              ("edits", 0.08 if prop in ("C07", "C13", "C14") else 0.0),
              ("reversed", 0.06 if prop == "C07" else 0.0),   # reverse_log_information() after the run, then the cost passes
              ("json_resume", 0.08 if prop == "C13" else 0.06),   # simulate(max_time=k), write/read JSON, resume the restored project
              ("backward_first", 0.10 if prop in ("C13", "C01", "C06") else 0.05),  # backward_simulate(), then a monitored simulate() on the same objects
              ("history", 0.06)]   # 2-4 operations of different kinds (runs, backward runs, pauses, reloads, edits, absence edits), then the monitored run
    acc = 0.0
    for name, share in shares:
        acc += share * scale
        if r < acc:
            return name
    return "single"


def _make_case(prop, seed, i, tier):
    rng = rng_for(prop, seed, i)
    big = tier == "thorough"
    if prop in USE_PAIRS and i < len(pairs()):
        spec = copy.deepcopy(pairs()[i])
        spec["sim"]["rule"] = rng.randrange(9)
        if rng.random() < 0.5:
            spec["task_order"] = [1, 0]
        return dict(prop=prop, i=i, source="shape-pair", spec=spec)
    r = rng.random()
    if r < 0.12:
        name = rng.choice(sorted(fixtures()))
        spec = G.perturb_fixture(rng, fixtures()[name])
        # half of the fixture models go through one of the short histories as well
        variant = pick_variant(prop, rng) if rng.random() < 0.5 else "single"
        return dict(prop=prop, i=i, source="fixture:" + name + ("+" + variant if variant != "single" else ""), spec=spec,
                    variant=variant, vseed=rng.randrange(10 ** 9))
    if r < 0.22 and prop in ("C01", "C02", "C06", "C03", "C07"):
        spec = G.shape_chains(rng, 1)[0]
        if rng.random() < 0.5:
            order = list(range(len(spec["tasks"])))
            if rng.random() < 0.5:
                order.reverse()
            else:
                rng.shuffle(order)
            spec["task_order"] = order          # successors listed before their predecessors
        if rng.random() < 0.4:
            spec["sim"]["absence"] = G._absence(rng, horizon=10)
            spec["sim"]["auto_flag"] = rng.random() < 0.5
        variant = pick_variant(prop, rng) if rng.random() < 0.5 else "single"
        return dict(prop=prop, i=i, source="shape-chain" + ("+" + variant if variant != "single" else ""), spec=spec,
                    variant=variant, vseed=rng.randrange(10 ** 9))
    if 0.22 <= r < 0.29:
        # beyond the usual sizes: one dimension stretched (run length, fan-in, tasks per component, length of a
        # finish-gated chain, team size, ...), the rest small; the dimension a property is most sensitive to is
        # drawn more often
        prefer = {"C01": ["wide"] * 5, "C02": ["ff_chain"] * 5 + ["long"] * 2, "C06": ["ff_chain"] * 5 + ["shared_ids"] * 4, "C03": ["many_resources"] * 4,
                  "C04": ["numeric_ids"] * 4 + ["many_resources", "shared_ids", "shared_ids"], "C07": ["many_resources"] * 3 + ["long"] * 3,
                  "C13": ["many_components"] * 6, "C14": ["one_component"] * 4}.get(prop, [])
        spec = G.gen_scale(rng, rng.choice(list(G.SCALE_KINDS) + prefer))
        variant = pick_variant(prop, rng) if rng.random() < 0.3 else "single"
        return dict(prop=prop, i=i, source="scale:" + spec["scale"] + ("+" + variant if variant != "single" else ""), spec=spec,
                    variant=variant, vseed=rng.randrange(10 ** 9))
    kw = dict(PROFILE[prop])
    if big:
        kw["max_tasks"] = 14 if rng.random() < 0.3 else 8
    if rng.random() < FACILITY_RICH_SHARE.get(prop, 0.3):
        kw["facility_rich"] = True
    spec = G.gen_random(rng, G.profile(**kw))
    if rng.random() < 0.06:
        G.add_idle_parts(rng, spec)
    elif prop == "C07" and len(spec["teams"]) >= 2 and rng.random() < 0.12:
        # a worker on loan: listed (and paid) by one team, working for the tasks of another one
        b = rng.randrange(len(spec["teams"]))
        a = rng.choice([x for x in range(len(spec["teams"])) if x != b])
        if spec["teams"][b]["workers"] and spec["teams"][a]["targets"]:
            w = rng.choice(spec["teams"][b]["workers"])
            w["loan_team"] = a
            for ti in spec["teams"][a]["targets"]:
                w["skills"].setdefault(spec["tasks"][ti]["name"], 1.0)
            if w["cost"] <= 0:
                w["cost"] = 2.0
    # a share of the models goes through a short history instead of one plain run:
    #   resim      simulate() twice on the same objects (fresh monitors for the second run)
    #   resume     simulate(max_time=k) + resume with both initialisations off (same monitors)
    #   keeplog    simulate() + simulate(initialize_log_info=False) (logs appended; fresh monitors)
    #   edit_resim simulate(), edit per-resource absence lists in place, simulate() again
    #   edits      simulate(), then remove/insert_absence_time_list edits, then the log-only passes
    #   json_resume / backward_first: see below; resume edits parameters in place between pause and resume
    #   in 40 % of its cases
    variant = pick_variant(prop, rng)
    if variant == "edits" and len(spec["sim"]["absence"]) < 2 and rng.random() < 0.6:
        # the edits start from a run that has project absence steps of its own (often not in ascending order)
        ab = rng.sample(range(0, 14), rng.randint(2, 4))
        if rng.random() < 0.5:
            ab.sort()
        spec["sim"]["absence"] = ab
    if prop == "C13" and variant in ("resume", "history", "edit_resim", "keeplog") and rng.random() < 0.4:
        # conveyor lines (components that do move from workplace to workplace) under the histories that edit the model
        spec = G.perturb_fixture(rng, fixtures()[rng.choice(["conveyor", "conveyor"])])
    if prop == "C13" and variant == "backward_first":
        # conveyor links matter here: both directions of the same links are exercised on the same objects
        for k in range(1, len(spec["wps"])):
            if not spec["wps"][k]["inputs"] and rng.random() < 0.7:
                spec["wps"][k]["inputs"].append(rng.randrange(0, k))
    return dict(prop=prop, i=i, source="random" + ("-frich" if kw.get("facility_rich") else "") + ("+" + variant if variant != "single" else ""),
                spec=spec, variant=variant, vseed=rng.randrange(10 ** 9))


def monitors_for(prop):
    def mk(started):
        if prop == "C01":
            return [M.MonC01(started)]
        if prop == "C02":
            return [M.MonC02(started)]
        if prop == "C03":
            return [M.MonC03()]
        if prop == "C04":
            return [M.MonC04()]
        if prop == "C06":
            return [M.MonC06(started)]
        if prop == "C07":
            return [M.MonC07()]
        if prop == "C13":
            return [M.MonC13()]
        if prop == "C14":
            return [M.MonC14()]
        raise KeyError(prop)
    return mk


class _Frozen(object):
    """The object lists of a project as they are now (read_simple_json into the same object replaces them)."""

    def __init__(self, p):
        class _L(object):
            pass
        self.product, self.workflow, self.organization = _L(), _L(), _L()
        self.product.component_list = list(p.product.component_list)
        self.workflow.task_list = list(p.workflow.task_list)
        self.organization.workplace_list = list(p.organization.workplace_list)


def carry_over(old_mons, new_mons, p_old, p_new):
    """Monitor memory that spans steps (where a component was, which assemblies were split, when a task
    started, which component states were seen) follows the model through a save/load: objects are
    matched by ID."""
    new_by_id = {}      # (per class: ID strings may be shared across classes)
    for o in list(p_new.workflow.task_list) + list(p_new.product.component_list) + list(p_new.organization.workplace_list):
        new_by_id[(type(o).__name__, o.ID)] = o

    def r(o):
        return None if o is None else new_by_id.get((type(o).__name__, o.ID))
    old_by_pyid = {}
    for o in list(p_old.product.component_list):
        old_by_pyid[id(o)] = o
    for a, b in zip(old_mons, new_mons):
        if isinstance(a, M.MonC13):
            for nm in ("loc", "last_kind", "prev_loc"):
                src = getattr(a, nm)
                setattr(b, nm, {r(k): (r(v) if hasattr(v, "ID") else v) for k, v in src.items() if r(k) is not None})
            b.split = set(id(r(old_by_pyid[i])) for i in a.split if i in old_by_pyid and r(old_by_pyid[i]) is not None)
        elif isinstance(a, M.MonC06):
            b.started_at = {r(k): v for k, v in a.started_at.items() if r(k) is not None}
        elif isinstance(a, M.MonC14):
            b.seen_non_none = set(r(c) for c in a.seen_non_none if r(c) is not None)
            b.seen_finished = set(r(c) for c in a.seen_finished if r(c) is not None)


def nontrivial(prop, spec, c, project):
    if prop == "C01":
        return c.get("C01.nonFS_active", 0) > 0
    if prop == "C02":
        return c.get("C02.multi_worker_balances", 0) + c.get("C02.kind.facility", 0) + c.get("C02.absent_resource_balances", 0) > 0
    if prop == "C03":
        return c.get("C03.contention_steps", 0) > 0
    if prop == "C04":
        return c.get("C04.alloc_with_ineligible_free_candidate", 0) > 0
    if prop == "C06":
        return c.get("C06.steps_free_worker_and_waiting_task", 0) > 0
    if prop == "C07":
        rates = set()
        for tm in spec["teams"]:
            for w in tm["workers"]:
                if w["cost"] > 0:
                    rates.add(w["cost"])
        for wp in spec["wps"]:
            for f in wp["facilities"]:
                if f["cost"] > 0:
                    rates.add(f["cost"])
        has_abs = bool(spec["sim"]["absence"]) or any(w["absence"] for tm in spec["teams"] for w in tm["workers"])
        return len(rates) >= 2 and has_abs
    if prop == "C13":
        return c.get("C13.moves", 0) > 0 and len(spec["comps"]) >= 2
    if prop == "C14":
        return c.get("C14.mixed_state_checks", 0) > 0
    return False


def run_case(case):
    import random
    from . import instr as I
    from .runner import exc_info
    from .history import Hist
    prop, spec = case["prop"], case["spec"]
    res = Result(case)
    if prop == "C01":
        # the declared dependencies are the ones the property speaks about: every one of them must be in the model
        I.install()
        I.set_order(case.get("order") or I.default_order(spec))
        miss = B.declared_dependencies_missing(B.build(spec), spec)
        res.count("C01.declared_dependency_checks", sum(len(t["deps"]) for t in spec["tasks"]))
        if miss:
            res.violate("C01", "C01/declared-dependency-not-in-the-model",
                        "append_input_task was called for %s but the model does not hold these links (successor, predecessor, kind)" % (miss[:4],))
    variant = case.get("variant", "single")
    vr = random.Random(case.get("vseed", 0))
    res["source"] = case.get("source")
    res.count("variant." + variant)

    def placement_exception(m, tr, err):
        if prop == "C13":
            stack = " ".join(err["stack"])
            if "remove_placed_component" in stack or "set_placed" in stack or "check_removing_placed_workplace" in stack:
                mon = [x for x in tr.monitors if isinstance(x, M.MonC13)][0]
                mech = "C13/exception-in-placement:%s:%s" % (err["type"], err["where"].split(":")[-1])
                if mon.any_split(m.project):
                    mech += ":assembly-split"
                res.violate("C13", mech, "placement code raised %s: %s at %s" % (err["type"], err["msg"], err["where"]), stack=err["stack"])

    if variant == "resume":
        # one tracer and one set of monitors across pause and resume
        I.install()
        I.set_order(case.get("order") or I.default_order(spec))
        m = B.build(spec)
        started = M.StartedSnap()
        tr = I.Tracer([started] + list(monitors_for(prop)(started)))
        k = vr.choice([0, 1, 2, 3, 5, 8, 13])
        err = None
        with I.tracing(tr):
            try:
                B.run(m.project, spec, max_time=k)
                if vr.random() < 0.5:
                    from . import edits as E
                    # (the offline log passes of C04 / C07 read skills, fixed lists and rates as static)
                    skip = {"C04": ("skill", "fskill", "skill_busy", "fskill_busy", "fixed", "solo"), "C07": ("cost", "fcost")}.get(prop, ())
                    more = {"C02": ("skill_busy", "skill_busy", "skill_busy", "fskill_busy", "skill"),
                            "C03": ("absence_append", "solo", "add_worker"), "C04": ("team_target_remove",) * 5 + ("team_target_add", "add_worker"),
                            "C06": ("add_worker",) * 3 + ("team_target_add",), "C13": ("wp_inputs_set",) * 6 + ("fskill", "solo")}.get(prop, ())
                    spec, _what = E.edit(vr, spec, m, n=vr.randint(1, 4), only=[x for x in E.MID_RUN + more if x not in skip])
                    res.count("resume_with_parameter_edits")
                B.run(m.project, spec, initialize_state_info=False, initialize_log_info=False)
            except Exception as e:
                err = exc_info(e)
            if err is None:
                tr.end(m.project)
        res.absorb(tr, props=(prop,))
        res.count("steps", tr.phase_counts.get("recorded", 0))
        if err is not None:
            res["aborted"] = err
            placement_exception(m, tr, err)
            return res
    elif variant == "json_resume":
        # pause, save, load into a new BaseProject, resume the restored objects under fresh monitors
        # that are primed with the restored state as "the previous recorded step"
        I.install()
        I.set_order(case.get("order") or I.default_order(spec))
        m = B.build(spec)
        started = M.StartedSnap()
        tr = I.Tracer([started] + list(monitors_for(prop)(started)))
        k = vr.choice([1, 2, 3, 5, 8, 13])
        err = None
        with I.tracing(tr):
            try:
                B.run(m.project, spec, max_time=k)
            except Exception as e:
                err = exc_info(e)
            if err is None:
                tr.end(m.project)
        res.absorb(tr, props=(prop,))
        if err is not None:
            res["aborted"] = err
            placement_exception(m, tr, err)
            return res
        h = Hist(spec, order=False, model=m)
        p_old = _Frozen(m.project)          # (the objects of the paused project, for the carry-over by ID)
        r_ = vr.random()
        how = "reload" if r_ < 0.3 else ("saveload" if r_ < 0.65 else ("deepcopy" if r_ < 0.85 else "pickle"))
        # read into the SAME BaseProject object / into a new one / duplicated by copy.deepcopy / by a pickle round trip
        e = h.do([how])
        if e is not None:
            if how in ("deepcopy", "pickle"):
                res.violate(prop, "%s/copy-of-paused-project-raises:%s:%s" % (prop, how, e["type"]),
                            "%s of a paused project raised %s: %s (%s)" % (how, e["type"], e["msg"], e["where"]))
            res["aborted"] = e
            return res
        res.count("json_resumed_runs." + {"reload": "same_object", "saveload": "new_object"}.get(how, how))
        q = h.p
        started = M.StartedSnap()
        for t in q.workflow.task_list:
            if any(x in (M.TS.WORKING, M.TS.FINISHED) for x in t.state_record_list):
                started.started.add(t)
        tr2 = I.Tracer([started] + list(monitors_for(prop)(started)))
        carry_over(tr.monitors, tr2.monitors, p_old, q)
        tr2.state_reset = False
        if q.time > 0:
            snap = I.Snap(q, "recorded", (q.time - 1) in q.absence_time_list)
            snap.step = q.time - 1
            tr2.prev_rec = snap
            tr2.last = {"recorded": snap}
        tr2.log_base = len(q.cost_list)
        with I.tracing(tr2):
            try:
                B.run(q, spec, initialize_state_info=False, initialize_log_info=False)
            except Exception as e:
                err = exc_info(e)
            if err is None:
                tr2.end(q)
        res.absorb(tr2, props=(prop,))
        res.count("json_resumed_runs")
        res.count("steps", tr.phase_counts.get("recorded", 0) + tr2.phase_counts.get("recorded", 0))
        if err is not None:
            res["aborted"] = err
            placement_exception(m, tr2, err)
            return res

        class _M(object):
            project = q
        m = _M()
    elif variant == "history":
        from .p_c08 import gen_ops
        from . import edits as E
        I.install()
        I.set_order(case.get("order") or I.default_order(spec))
        m = B.build(spec)
        h = Hist(spec, order=False, model=m)
        ops = gen_ops(vr, n=vr.randint(2, 4))
        done = []
        for op in ops:
            r_ = vr.random()
            if r_ < 0.2 and h.p is m.project:
                spec, _what = E.edit(vr, spec, m, n=vr.randint(1, 2))      # a model edit between two operations
                h.spec = spec
                done.append("edit")
            elif r_ < 0.3 and h.p.time > 0:
                if h.p.absence_time_list:
                    h.do(["remove_abs"])
                    done.append("remove_abs")
                else:
                    h.do(["insert_abs", sorted(vr.sample(range(0, h.p.time + 1), min(h.p.time, vr.randint(1, 2))))])
                    done.append("insert_abs")
            e = h.do(op)
            done.append(op[0])
            if e is not None:
                res["aborted"] = e
                return res
        res.count("history_runs")
        res.count("history_ops", len(done))
        res.count("history_distinct_op_kinds." + str(len(set(done))))

        class _MH(object):
            project = h.p
        m = _MH()
        tr2, err2 = resimulate(m, spec, monitors_for(prop))
        res.absorb(tr2, props=(prop,))
        res.count("steps", tr2.phase_counts.get("recorded", 0))
        if err2 is not None:
            res["aborted"] = err2
            placement_exception(m, tr2, err2)
            return res
    elif variant == "backward_first":
        I.install()
        I.set_order(case.get("order") or I.default_order(spec))
        m = B.build(spec)
        h = Hist(spec, order=False, model=m)
        e = h.do(["backward", vr.random() < 0.5, vr.random() < 0.5])
        if e is not None:
            res["aborted"] = e
            return res
        tr2, err2 = resimulate(m, spec, monitors_for(prop))
        res.absorb(tr2, props=(prop,))
        res.count("simulate_after_backward_runs")
        res.count("steps", tr2.phase_counts.get("recorded", 0))
        if err2 is not None:
            res["aborted"] = err2
            placement_exception(m, tr2, err2)
            return res
    else:
        end_now = variant not in ("edits", "reversed")
        I.install()
        I.set_order(case.get("order") or I.default_order(spec))
        m = B.build(spec)
        started = M.StartedSnap()
        tr = I.Tracer([started] + list(monitors_for(prop)(started)))
        err = None
        with I.tracing(tr):
            try:
                B.run(m.project, spec)
            except Exception as e:
                err = exc_info(e)
            if err is None and end_now:
                tr.end(m.project)
        if err is not None:
            res.absorb(tr, props=(prop,))
            res["aborted"] = err
            placement_exception(m, tr, err)
            return res
        res.count("steps", tr.phase_counts.get("recorded", 0))
        if variant == "reversed":
            m.project.reverse_log_information()
            res.count("reversed_logs")
            tr.end(m.project)
        if variant == "edits":
            h = Hist(spec, order=False, model=m)
            T = m.project.time
            for _ in range(vr.randint(1, 3)):
                # insert_absence_time_list does not renumber the absence steps that are registered already, and
                # steps registered beyond the end come into range when the logs grow: a later remove would then
                # delete real working steps, and no property speaks about logs after that (C18 claims alignment
                # only). So: steps are inserted into absence-free logs only; logs with registered absence steps
                # are cleaned first (or get one last insertion).
                last = False
                if m.project.absence_time_list:
                    if vr.random() < 0.7:
                        op = ["remove_abs"]
                    else:
                        last = True
                if m.project.absence_time_list and not last:
                    pass
                else:
                    lo = 1 if prop == "C14" else 0   # see DESIGN C14: an inserted step 0 is not a simulated step
                    pool = list(range(lo, max(lo + 1, m.project.time))) + list(m.project.absence_time_list)
                    pool = [x for x in pool if x >= lo]
                    op = ["insert_abs", sorted(set(vr.sample(pool, min(len(pool), vr.randint(1, 3)))))]
                e = h.do(op)
                res.count("edit_ops")
                if e is not None:
                    res["aborted"] = e
                    res.absorb(tr, props=(prop,))
                    return res
                if last:
                    break
            tr.end(m.project)
        res.absorb(tr, props=(prop,))
        if variant in ("resim", "keeplog", "edit_resim"):
            kw = None
            if variant == "keeplog":
                kw = dict(initialize_log_info=False, max_time=m.project.time + spec["sim"]["max_time"])
                if vr.random() < 0.5:
                    from . import edits as E
                    # the model is edited before the appended run (state is re-initialised, logs are kept)
                    # (the log passes of C04 / C07 read skills, fixed lists, solo flags and rates as static over the whole log)
                    spec, _what = E.edit(vr, spec, m, extra={"C01": ("edge_add",) * 6, "C14": ("bind_component",) * 6}.get(prop, ()),
                                         skip={"C04": ("skill", "fskill", "skill_busy", "fskill_busy", "fixed", "solo"), "C07": ("cost", "fcost")}.get(prop, ()))
                    kw["max_time"] = m.project.time + spec["sim"]["max_time"]
                    res.count("keeplog_after_model_edit")
            if variant == "edit_resim":
                from . import edits as E
                rs = [w for tm in m.project.organization.team_list for w in tm.worker_list] + \
                     [f for wp in m.project.organization.workplace_list for f in wp.facility_list]
                for r_ in vr.sample(rs, min(len(rs), vr.randint(0, 2))):
                    for x in vr.sample(range(0, 12), vr.randint(1, 3)):
                        if x not in r_.absence_time_list:
                            r_.absence_time_list.append(x)     # in place, as a user would
                # ... and other parameters (skills, costs, work amounts, rules, flags, capacities), the structure
                # (new dependencies, new workers, team targets, conveyor inputs, a first task for an empty component)
                spec, _what = E.edit(vr, spec, m, extra={"C14": ("bind_component",) * 8, "C13": ("wp_inputs_set", "bind_component") * 3,
                                                         "C01": ("edge_add",) * 4, "C04": ("team_target_remove", "team_target_add") * 2,
                                                         "C06": ("add_worker", "edge_add") * 2}.get(prop, ()))
            tr2, err2 = resimulate(m, spec, monitors_for(prop), sim_kw=kw)
            res.absorb(tr2, props=(prop,))
            res.count("resimulated_runs")
            if err2 is not None:
                res["aborted"] = err2
                placement_exception(m, tr2, err2)
                return res
    res["nontrivial"] = bool(nontrivial(prop, spec, res["counters"], m.project))
    res["status"] = int(m.project.status)
    res["time"] = m.project.time
    return res


def make_case(prop, seed, i, tier):
    case = _make_case(prop, seed, i, tier)
    # numbers off every decimal grid for 6 % of the cases (a random stream of its own: the other cases stay as they were)
    import random
    r2 = random.Random("offgrid/%s/%s/%d" % (prop, seed, i))
    if r2.random() < 0.06 and isinstance(case.get("spec"), dict) and case.get("source") != "shape-pair":
        G.off_grid(r2, case["spec"])
        case["source"] = case.get("source", "") + "+offgrid"
    return case
