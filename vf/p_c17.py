"""C17: backward simulation leaves the model intact (even when aborted by an exception at any
step) and respects dependencies.  Level: fault_enumeration."""
import warnings

from . import gen as G
from . import monitors as M
from . import build as B
from . import instr as I
from .runner import rng_for, Result, ns, exc_info
from .p_c08 import add_due_times
from .p_c09 import strip_pert

TS = ns.BaseTaskState
DEP = ns.BaseTaskDependency


class InjectedFault(Exception):
    pass


class InjectedInterrupt(BaseException):
    """An abort that is not an Exception (as Ctrl-C / SystemExit / a cancelled task are)."""


def structure(p):
    """Identity snapshot of every dependency list (objects, order, kinds)."""
    s = {"tasks": [id(t) for t in p.workflow.task_list]}
    for t in p.workflow.task_list:
        s["in:%d" % id(t)] = [(id(x), int(d)) for x, d in t.input_task_list]
        s["out:%d" % id(t)] = [(id(x), int(d)) for x, d in t.output_task_list]
    for w in p.organization.workplace_list:
        s["win:%d" % id(w)] = [id(x) for x in w.input_workplace_list]
        s["wout:%d" % id(w)] = [id(x) for x in w.output_workplace_list]
    return s


def diff_structure(a, b, p):
    names = {id(t): t.ID for t in p.workflow.task_list}
    names.update({id(w): w.ID for w in p.organization.workplace_list})
    for k in a:
        if a[k] != b.get(k):
            kind, _, oid = k.partition(":")
            return "%s of %s: before %s, after %s" % (kind, names.get(int(oid), "?") if oid else "", a[k], b.get(k))
    for k in b:
        if k not in a:
            return "new list %s" % k
    return None


class PhaseLog(object):
    def __init__(self):
        self.points = []

    def on_phase(self, tr, project, phase, snap):
        self.points.append((snap.step, phase))


def make_case(prop, seed, i, tier):
    rng = rng_for(prop, seed, i)
    r = rng.random()
    if r < 0.2:
        from .p_forward import fixtures
        name = rng.choice(sorted(fixtures()))
        spec = G.perturb_fixture(rng, fixtures()[name])
        spec["sim"]["max_time"] = 60
    else:
        spec = G.gen_random(rng, G.profile(facility_rich=rng.random() < 0.35, max_time=50, ensure_worker=0.97, max_tasks=7))
    if i % 12 == 7:
        # beyond the usual sizes: 30 and more tasks, wide fan-in, long finish-gated chains, big teams, many components
        spec = G.gen_scale(rng, rng.choice(["wide", "ff_chain", "one_component", "many_resources", "numeric_ids", "many_components", "long"]))
        if rng.random() < 0.5:
            # a large random model: 30 and more tasks that compete for workers
            spec = G.gen_random(rng, G.profile(large=1.0, min_tasks=30, max_tasks=36, facility_rich=rng.random() < 0.3, max_time=40, fixed_lists=False, nested=False))
            spec["sim"]["absence"] = [x for x in spec["sim"]["absence"] if x < 60][:6]
            if rng.random() < 0.5:
                spec["sim"]["rule"] = 0
    add_due_times(rng, spec)
    mode = "inject" if i % 3 == 0 else "order"
    if mode == "order" and rng.random() < 0.7:
        # dependency-order workload: own workers (the backward run succeeds), mixed kinds with many FS links
        spec = G.gen_random(rng, G.profile(facilities=False, comps=False, max_time=60, ensure_worker=1.0, min_tasks=3, max_tasks=8,
                                           kinds=(G.FS, G.FS, G.FS, G.SS, G.FF, G.SF), fixed_lists=False, solo=False, p_edge=(0.25, 0.6)))
        add_due_times(rng, spec)
    return dict(prop=prop, i=i, spec=spec, tier=tier, mode=mode, due=rng.random() < 0.6, reverse=rng.random() < 0.6, pseed=rng.randrange(10 ** 9))


def backward(p, spec, due, reverse):
    with warnings.catch_warnings():
        warnings.simplefilter("ignore")
        p.backward_simulate(considering_due_time_of_tail_tasks=due, reverse_log_information=reverse, **B.sim_args(spec))


def check_after(res, p, m, before, fwd, spec, what):
    after = structure(p)
    d = diff_structure(before, after, p)
    res.count("C17.structure_checks")
    if d:
        helper = len(p.workflow.task_list) != len(m.tasks)
        res.violate("C17", "C17/structure-not-restored" + (":helper-task-left" if helper else ""),
                    "%s: dependency structure differs after backward_simulate: %s" % (what, d))
        return False
    orig = set(map(id, m.tasks))
    for t in m.tasks:
        for x, dd in list(t.input_task_list) + list(t.output_task_list):
            if id(x) not in orig:
                res.violate("C17", "C17/structure-not-restored:helper-task-left", "%s: task %s still refers to helper task %s" % (what, t.ID, x.ID))
                return False
    if any(hasattr(t, "dummy_output_task_list") or hasattr(t, "dummy_input_task_list") for t in m.tasks):
        res.violate("C17", "C17/structure-not-restored:dummy-attribute-left", "%s: a dummy_* list is left on a task" % what)
    # a later forward simulate gives the same result as before
    I.set_order(I.default_order(spec))
    try:
        B.run(p, spec)
    except Exception as e:
        ei = exc_info(e)
        res.violate("C17", "C17/forward-after-backward-raises:%s:%s" % (ei["type"], ei["where"]), "%s: forward simulate raised %s" % (what, ei["msg"]))
        return False
    res.count("C17.forward_comparisons")
    d2 = strip_pert(B.dump(p))
    if d2 != fwd:
        df = B.first_diff(fwd, d2)
        res.violate("C17", "C17/forward-after-backward-differs", "%s: forward result differs at %s (%r vs %r)" % (what, df[0], df[1], df[2]))
        return False
    return True


def run_case(case):
    import random
    res = Result(case)
    spec = case["spec"]
    rng = random.Random(case["pseed"])
    due, reverse = case["due"], case["reverse"]
    I.install()
    order = I.default_order(spec)
    I.set_order(order)
    m = B.build(spec)
    p = m.project
    res["source"] = "backward"
    try:
        if case["i"] % 2 == 1:
            # the reference forward result comes from ANOTHER fresh model: backward_simulate() is the very
            # first run these objects see ("as if backward_simulate had never been called")
            I.set_order(order)
            m_ref = B.build(spec)
            B.run(m_ref.project, spec)
            fwd = strip_pert(B.dump(m_ref.project))
            res.count("C17.backward_is_first_run")
            I.set_order(order)
        else:
            B.run(p, spec)
            fwd = strip_pert(B.dump(p))
    except Exception as e:
        res["aborted"] = exc_info(e)
        return res
    if case["i"] % 6 == 5:
        # an earlier backward run, and then the project written and read back into the SAME object (or edited):
        # whatever the first backward run remembered must not come back in the examined one
        from .history import Hist
        hp = Hist(spec, order=False, model=m)
        e0 = hp.do(["backward", bool(case["i"] % 4 < 2), True])
        if e0 is None and case["i"] % 12 == 5:
            e0 = hp.do(["reload"])
            m.tasks = list(p.workflow.task_list)
            res.count("C17.earlier_backward_then_reload")
        elif e0 is None:
            for t in p.workflow.task_list:           # new list objects with the same content, as an edit would leave them
                t.input_task_list = list(t.input_task_list)
                t.output_task_list = list(t.output_task_list)
            for wp in p.organization.workplace_list:
                wp.input_workplace_list = list(wp.input_workplace_list)
                wp.output_workplace_list = list(wp.output_workplace_list)
            res.count("C17.earlier_backward_then_lists_replaced")
        if e0 is not None:
            res["aborted"] = e0
            return res
        I.set_order(order)
    before = structure(p)
    # ---- reference backward run (no fault): collects the injection points
    pl = PhaseLog()
    tr = I.Tracer([pl])
    err = None
    try:
        with I.tracing(tr):
            backward(p, spec, due, reverse)
    except Exception as e:
        err = exc_info(e)
    res.count("C17.backward_runs")
    res.count("C17.opt.due=%s,reverse=%s" % (due, reverse))
    if err is not None:
        nested = any(c["children"] for c in spec["comps"])
        if "remove_placed_component" in " ".join(err["stack"]) and nested:
            res["aborted"] = err     # known placement crash of nested products (C13 finding)
            check_after(res, p, m, before, fwd, spec, "backward run aborted by %s" % err["type"])
            return res
        res.violate("C17", "C17/backward-raises:%s:%s" % (err["type"], err["where"]), "backward_simulate raised %s: %s (%s)" % (err["type"], err["msg"], err["where"]))
        check_after(res, p, m, before, fwd, spec, "backward run that raised %s" % err["type"])
        return res
    # logs of the successful backward run
    tr2 = I.Tracer([])
    M.check_alignment(tr2, p, prop="C17", mech="C17/logs-misaligned-after-backward", context="after backward_simulate(due=%s, reverse=%s)" % (due, reverse))
    res.absorb(tr2, props=("C17",))
    if p.status == ns.BaseProjectStatus.FINISHED_SUCCESS:
        res.count("C17.successful_backward_runs")
        for t in m.tasks:
            for pred, dep in t.input_task_list:
                if dep != DEP.FS:
                    continue
                res.count("C17.fs_order_checks")
                # time-reversed logs: as left by the run (reverse=True) or reversed here (reverse=False)
                tl = t.state_record_list if reverse else t.state_record_list[::-1]
                pl_ = pred.state_record_list if reverse else pred.state_record_list[::-1]
                sw = [k for k, s in enumerate(tl) if s == TS.WORKING]
                pw = [k for k, s in enumerate(pl_) if s == TS.WORKING]
                if sw and pw and sw[0] <= pw[-1]:
                    res.violate("C17", "C17/reversed-log-violates-FS",
                                "reversed backward logs: task %s logged WORKING at step %d while its FS predecessor %s is still WORKING at step %d" % (t.ID, sw[0], pred.ID, pw[-1]))
    check_after(res, p, m, before, fwd, spec, "successful backward run")
    if case.get("mode") == "order":
        res.count("C17.order_only_cases")
        res["nontrivial"] = res["counters"].get("C17.fs_order_checks", 0) > 0
        return res
    # ---- fault injection: an exception raised from the observer at (step, phase)
    points = pl.points
    if case["tier"] == "thorough" and len(points) <= 400:
        chosen = points
    elif case["tier"] == "thorough":
        chosen = points[:200] + rng.sample(points[200:], 150) + [points[-1]]   # (long runs of the large models)
    if case["tier"] == "thorough":
        # work bound in logical units (tasks x steps per injected run), so that a large model does not run into the
        # per-case wall-clock watchdog (which would make the whole tier inconclusive): DESIGN 5.3 #15
        unit = max(1, len(spec["tasks"]) * (len(points) // 5 + int(spec["sim"].get("max_time", 50))))
        cap = max(30, 1500000 // unit)
        if len(chosen) > cap:
            head = chosen[:cap // 3]
            chosen = head + rng.sample(chosen[cap // 3:-1], cap - len(head) - 1) + [chosen[-1]]
            res.count("C17.injection_points_capped_cases")
    else:
        chosen = rng.sample(points, min(8, len(points)))
        for sp in (points[0], points[-1]):
            if sp not in chosen:
                chosen.append(sp)
    raised = 0
    for (k, ph) in chosen:
        I.set_order(order)
        tr = I.Tracer([])
        state = {"hit": False}

        def inject(project, phase, k=k, ph=ph, state=state):
            if not state["hit"] and project.time == k and phase == ph:
                state["hit"] = True
                if (k + len(ph)) % 3 == 0:
                    raise InjectedInterrupt("%s@%d" % (ph, k))
                raise InjectedFault("%s@%d" % (ph, k))
        tr.inject = inject
        got = None
        try:
            with I.tracing(tr):
                backward(p, spec, due, reverse)
        except InjectedFault:
            got = "injected"
        except InjectedInterrupt:
            got = "injected"
            res.count("C17.faults_that_are_not_Exceptions")
        except Exception as e:
            got = exc_info(e)
        res.count("C17.injected_runs")
        if got == "injected":
            raised += 1
            res.count("C17.faults_raised_and_propagated")
            res.count("C17.fault_phase." + ph)
        elif got is None:
            res.count("C17.fault_not_reached")
        else:
            res.count("C17.other_exception_during_injection")
        if not check_after(res, p, m, before, fwd, spec, "backward run aborted by an exception at step %d phase %s" % (k, ph)):
            break
    res["nontrivial"] = raised > 0
    return res
