"""Per-property evidence metadata."""
LEVEL = {"C17": "fault_enumeration"}
EXHAUSTIVE = {"C19": True}
COMMON_ASSUMPTIONS = [
    "the code under test is the working tree at /repo imported in fresh interpreters with PDESY_VERIF=1 (asserted per worker)",
    "unit_time=1, task_performed_mode='multi-workers', deterministic skills (no skill standard deviation)",
    "held on the executions explored only; models are generated, not enumerated",
]
ASSUMPTIONS = {}
