"""C10: absence is dead time (in-step clauses online; equivalence with the absence-free run)."""
import copy

from . import gen as G
from . import monitors as M
from . import build as B
from . import instr as I
from .runner import rng_for, forward, Result, ns, exc_info
from .history import Hist

P = ns.BaseProjectStatus


class MonNearTie(object):
    """Witness collector for the TSLACK finding: two waiting tasks whose slack (lst - est) differs by
    float noise only (0 < |difference| < 1e-9) at some step, so that the order produced by the rule is
    decided by rounding errors which depend on the absolute time."""

    def __init__(self):
        self.near_tie = False

    def on_phase(self, tr, project, phase, snap):
        if phase != "updated" or self.near_tie:
            return
        ks = [t.lst - t.est for t, s in snap.tstate.items() if s in (M.TS.READY, M.TS.WORKING) and not t.auto_task]
        for i in range(len(ks)):
            for j in range(i + 1, len(ks)):
                d = abs(ks[i] - ks[j])
                if 0.0 < d < 1e-9:
                    self.near_tie = True
                    return


class MonOrderWitness(object):
    """Witness facts for the two known findings, per step of the run WITHOUT its absence steps (index = step minus
    the absence steps before it): was the FIFO order of two waiting tasks at that step decided by READY entries that
    were logged at project absence steps (raw READY counts order the pair differently than the counts without those
    entries)?  did two waiting tasks have slacks that differ by float noise only?"""

    def __init__(self, absence):
        self.abs = sorted(set(absence))
        self.fifo_sensitive = set()
        self.near_tie = set()

    def _index(self, s):
        return s - sum(1 for a in self.abs if a < s)

    def on_phase(self, tr, project, phase, snap):
        if phase != "updated" or snap.step in self.abs:
            return
        k = self._index(snap.step)
        ts = [t for t, st in snap.tstate.items() if st in (M.TS.READY, M.TS.WORKING)]
        raw = {t: sum(1 for x in t.state_record_list if x == M.TS.READY) for t in ts}
        cor = {t: sum(1 for i_, x in enumerate(t.state_record_list) if x == M.TS.READY and i_ not in self.abs) for t in ts}
        sl = {t: t.lst - t.est for t in ts}
        for i in range(len(ts)):
            for j in range(i + 1, len(ts)):
                x, y = ts[i], ts[j]
                if (raw[x] > raw[y]) - (raw[x] < raw[y]) != (cor[x] > cor[y]) - (cor[x] < cor[y]):
                    self.fifo_sensitive.add(k)
                d = abs(sl[x] - sl[y])
                if 0.0 < d < 1e-9:
                    self.near_tie.add(k)


class counterfactual_sort(object):
    """Run the library's OWN sort_task_list on corrected inputs, to confirm the mechanism of a known finding:
    mode 'fifo'   - every task's state log is shown to the sort without the entries of the project absence steps;
    mode 'tslack' - est / lst are shown rounded to 9 decimals (float noise of the PERT sums removed).
    If the difference between the absence run and the absence-free run disappears under the correction, the known
    mechanism - and nothing else - caused it."""

    def __init__(self, mode, absence=()):
        self.mode, self.abs = mode, set(absence)

    def __enter__(self):
        self.orig = ns.pr.sort_task_list
        self.bp_had = getattr(ns.bp, "sort_task_list", None)
        orig, mode, abs_ = self.orig, self.mode, self.abs

        def wrapper(task_list, *a, **k):
            rule = a[0] if a else k.get("priority_rule_mode", ns.TaskPriorityRuleMode.TSLACK)
            saved = []
            try:
                if mode == "fifo" and rule == ns.TaskPriorityRuleMode.FIFO:
                    for t in task_list:
                        saved.append((t, "state_record_list", t.state_record_list))
                        t.state_record_list = [x for i_, x in enumerate(t.state_record_list) if i_ not in abs_]
                elif mode == "tslack" and rule == ns.TaskPriorityRuleMode.TSLACK:
                    for t in task_list:
                        saved.append((t, "est", t.est))
                        saved.append((t, "lst", t.lst))
                        t.est, t.lst = round(t.est, 9), round(t.lst, 9)
                return orig(task_list, *a, **k)
            finally:
                for t, nm, v in saved:
                    setattr(t, nm, v)
        ns.pr.sort_task_list = wrapper
        if self.bp_had is not None:
            ns.bp.sort_task_list = wrapper
        return self

    def __exit__(self, *exc):
        ns.pr.sort_task_list = self.orig
        if self.bp_had is not None:
            ns.bp.sort_task_list = self.bp_had
        return False


def confirmed_by_counterfactual(mode, spec, s2, L, case):
    """True if, with the corrected sort inputs, the absence run + remove_absence_time_list equals the absence-free run."""
    try:
        # (the absence-free run has no absence entries in its logs: under 'fifo' it runs with the sort as it is -
        # filtering the indices of L out of ITS logs would distort it; thorough tier, DESIGN 5.3 #16)
        with counterfactual_sort(mode, L if mode != "fifo" else ()):
            I.set_order(I.default_order(spec))
            mb = B.build(spec)
            B.run(mb.project, spec)
        with counterfactual_sort(mode, L):
            I.set_order(I.default_order(spec))
            mc = B.build(s2)
            if case.get("pause"):
                B.run(mc.project, s2, max_time=case["pause"])
                B.run(mc.project, s2, initialize_state_info=False, initialize_log_info=False)
            else:
                B.run(mc.project, s2)
            mc.project.remove_absence_time_list()
        return B.dump(mb.project, live=False) == B.dump(mc.project, live=False)
    except Exception:
        return False


def first_divergence(a, b):
    """First step index at which any per-step log of the two dumps differs (None if only lengths / scalars differ)."""
    best = None

    def walk(x, y):
        nonlocal best
        if isinstance(x, dict) and isinstance(y, dict):
            for k_ in set(x) & set(y):
                walk(x[k_], y[k_])
        elif isinstance(x, list) and isinstance(y, list):
            n = min(len(x), len(y))
            for i_ in range(n):
                if x[i_] != y[i_]:
                    if best is None or i_ < best:
                        best = i_
                    return
            if len(x) != len(y) and (best is None or n < best):
                best = n
    walk(a, b)
    return best


def absence_list(rng):
    base = set(rng.sample(range(0, 14), rng.randint(1, 4)))
    r = rng.random()
    if r < 0.3:
        base.add(0)
    if r > 0.5:
        a = rng.randrange(0, 9)
        base |= {a, a + 1, a + 2} if rng.random() < 0.4 else {a, a + 1}
    if rng.random() < 0.3:
        base |= {rng.choice([60, 75, 90, 150])}      # beyond the end of the run
    out = sorted(base)
    if rng.random() < 0.3:
        rng.shuffle(out)                              # not in ascending order
    return out


def make_case(prop, seed, i, tier):
    rng = rng_for(prop, seed, i)
    if i % 2 == 0:
        spec = G.gen_random(rng, G.profile(facility_rich=rng.random() < 0.3, p_auto=0.3))
        spec["sim"]["absence"] = absence_list(rng)
        if rng.random() < 0.05:
            spec = G.gen_scale(rng, rng.choice(["long", "long", "many_resources"]))    # long runs with late / long absence blocks, big teams
            if not spec["sim"]["absence"]:
                spec["sim"]["absence"] = sorted(rng.sample(range(0, 40), 5))
        spec["sim"]["auto_flag"] = rng.random() < 0.5
        if i % 8 == 4:
            # the same in-step clauses during a BACKWARD run (due-time padding tasks are automatic tasks);
            # the monitor judges by the flag the caller passed
            from .p_c08 import add_due_times
            add_due_times(rng, spec)
            return dict(prop=prop, i=i, kind="in-step-backward", spec=spec, due=rng.random() < 0.7, reverse=rng.random() < 0.5)
        if i % 8 == 2:
            # pause, edit per-resource absence lists in place, resume (one tracer over both calls)
            return dict(prop=prop, i=i, kind="edit-resume", spec=spec, k=rng.choice([1, 2, 3, 5]), eseed=rng.randrange(10 ** 9))
        return dict(prop=prop, i=i, kind="in-step", spec=spec)
    # equivalence class: no individual absences, no component-bound automatic task,
    # (flag off or no automatic task)
    long_block = None
    if rng.random() < 0.08:
        # a long run with a block of a hundred and more consecutive absence steps, late in the run
        spec = G.gen_scale(rng, "long")
        for tm in spec["teams"]:
            for w in tm["workers"]:
                w["absence"] = []
        for wp in spec["wps"]:
            for f in wp["facilities"]:
                f["absence"] = []
        a0 = rng.choice([3, 20, 60, 130])
        long_block = list(range(a0, a0 + rng.choice([100, 101, 120, 140])))
    else:
        spec = G.gen_random(rng, G.profile(facility_rich=rng.random() < 0.3, res_absence=False, p_auto=0.25,
                                           ensure_worker=0.95, max_time=70))
    for t in spec["tasks"]:
        if t["auto"] and t["component"] is not None:
            t["component"] = None
    flag = rng.random() < 0.35
    if flag:
        for t in spec["tasks"]:
            t["auto"] = False
    spec["sim"]["auto_flag"] = flag
    spec["sim"]["absence"] = []
    if rng.random() < 0.4:
        from .p_c08 import add_due_times
        add_due_times(rng, spec)          # due times are absolute step numbers: a forward run must not depend on them
    if rng.random() < 0.3:
        spec["sim"]["rule"] = rng.choice([0, 4])     # more weight on the two rules with a known finding (TSLACK, FIFO)
    case = dict(prop=prop, i=i, kind="equivalence", spec=spec, absence=absence_list(rng) if long_block is None else long_block)
    r = rng.random()
    if r < 0.35:
        # the run with absence is paused and resumed with the same list (through a JSON file in a third
        # of these cases) before the absence steps are deleted
        case["pause"] = rng.choice([1, 2, 3, 5, 8, 13])
        case["via_json"] = r < 0.12
    return case


def run_case(case):
    res = Result(case)
    spec = case["spec"]
    res["source"] = case["kind"]
    if case["kind"] == "in-step":
        m, tr, err = forward(spec, lambda started: [M.MonC10()])
        res.absorb(tr, props=("C10",))
        if err is not None:
            res["aborted"] = err
        res["nontrivial"] = res["counters"].get("C10.absence_steps_with_working_task", 0) > 0
        return res
    if case["kind"] == "in-step-backward":
        I.install()
        I.set_order(I.default_order(spec))
        tr = I.Tracer([M.MonC10()])
        tr.expected_auto_flag = bool(spec["sim"]["auto_flag"])
        h = Hist(spec, tracer=tr)
        err = h.do(["backward", case["due"], case["reverse"]])
        res.absorb(tr, props=("C10",))
        res.count("C10.backward_runs")
        if err is not None:
            res["aborted"] = err
        res["nontrivial"] = res["counters"].get("C10.absence_steps_with_working_task", 0) > 0
        return res
    if case["kind"] == "edit-resume":
        import random
        er = random.Random(case["eseed"])
        I.install()
        I.set_order(I.default_order(spec))
        m = B.build(spec)
        tr = I.Tracer([M.MonC10()])
        err = None
        with I.tracing(tr):
            try:
                B.run(m.project, spec, max_time=case["k"])
                rs = M.all_workers(m.project) + M.all_facilities(m.project)
                for r_ in er.sample(rs, min(len(rs), er.randint(1, 3))):
                    for x in er.sample(range(case["k"], case["k"] + 10), er.randint(1, 4)):
                        if x not in r_.absence_time_list:
                            r_.absence_time_list.append(x)
                B.run(m.project, spec, initialize_state_info=False, initialize_log_info=False)
            except Exception as ex:
                err = exc_info(ex)
        res.absorb(tr, props=("C10",))
        res.count("C10.edit_resume_runs")
        if err is not None:
            res["aborted"] = err
        res["nontrivial"] = res["counters"].get("C10.individual_absence_checks", 0) > 0
        return res
    # ---- equivalence
    I.install()
    I.set_order(I.default_order(spec))
    base = B.build(spec)
    e = None
    nt0 = MonNearTie()
    ow0 = MonOrderWitness([])
    try:
        with I.tracing(I.Tracer([nt0, ow0])):
            B.run(base.project, spec)
    except Exception as ex:
        e = exc_info(ex)
    if e is not None:
        res["aborted"] = e
        return res
    if base.project.status != P.FINISHED_SUCCESS:
        res.count("C10.equivalence_skipped_base_failed")
        return res
    L = case["absence"]
    s2 = copy.deepcopy(spec)
    s2["sim"]["absence"] = L
    s2["sim"]["max_time"] = spec["sim"]["max_time"] + len(L) + 5
    I.set_order(I.default_order(spec))
    m2 = B.build(s2)
    # count absence steps with a WORKING task (non-triviality) with the in-step monitor attached
    nt1 = MonNearTie()
    ow1 = MonOrderWitness(L)
    tr = I.Tracer([M.MonC10(), nt1, ow1])
    ready_logged_at_absence = False
    try:
        with I.tracing(tr):
            if case.get("pause"):
                B.run(m2.project, s2, max_time=case["pause"])
                if case.get("via_json"):
                    h = Hist(s2, order=False, model=m2)
                    ee = h.do(["saveload"])
                    if ee is not None:
                        res["aborted"] = ee
                        return res

                    class _M(object):
                        project = h.p
                    m2 = _M()
                    res.count("C10.equivalence_paused_via_json")
                    # (restored objects are new ones: the in-step monitor does not follow them)
                    with I.tracing(I.Tracer([nt1, ow1])):
                        B.run(m2.project, s2, initialize_state_info=False, initialize_log_info=False)
                else:
                    B.run(m2.project, s2, initialize_state_info=False, initialize_log_info=False)
                res.count("C10.equivalence_paused_and_resumed")
            else:
                B.run(m2.project, s2)
            working_logged_at_absence = False
            for t in m2.project.workflow.task_list:
                for a in L:
                    if a < len(t.state_record_list) and t.state_record_list[a] == M.TS.READY:
                        ready_logged_at_absence = True
                    if a < len(t.state_record_list) and t.state_record_list[a] == M.TS.WORKING:
                        working_logged_at_absence = True     # (the display rule itself is broken: not the known mechanism)
            m2.project.remove_absence_time_list()
    except Exception as ex:
        res["aborted"] = exc_info(ex)
        res.violate("C10", "C10/exception:%s:%s" % (res["aborted"]["type"], res["aborted"]["where"]),
                    "simulate(absence=%s) + remove_absence_time_list raised %s" % (L, res["aborted"]["msg"]))
        return res
    res.absorb(tr, props=("C10",))
    res.count("C10.equivalence_comparisons")
    a = B.dump(base.project, live=False)
    b = B.dump(m2.project, live=False)
    if a != b:
        diff = B.first_diff(a, b)
        path = diff[0]
        # classify by witness facts
        inside = [x for x in L if x < base.project.time + len(L)]
        beyond = [x for x in L if x >= base.project.time + len([y for y in L if y < x])]
        owner = path.split("/")[1] if "/" in path else path
        mech = "C10/equivalence"
        kstar = first_divergence(a, b)
        res.count("C10.equivalence_differences_classified")
        facts = dict(kstar=kstar, ready_logged_at_absence=ready_logged_at_absence, working_logged_at_absence=working_logged_at_absence,
                     fifo_sensitive_at_kstar=kstar in ow1.fifo_sensitive, near_tie_at_kstar=(kstar in ow0.near_tie or kstar in ow1.near_tie))
        if (spec["sim"]["rule"] == int(ns.TaskPriorityRuleMode.FIFO) and ready_logged_at_absence and not working_logged_at_absence
                and kstar is not None and kstar in ow1.fifo_sensitive
                and confirmed_by_counterfactual("fifo", spec, s2, L, case)):
            # the FIFO key counts READY entries of the log, which include those logged at project absence steps - and at
            # the first step where the two results part, that is what ordered two waiting tasks differently
            mech += ":FIFO-key-counts-READY-entries-logged-at-absence-steps"
        elif (spec["sim"]["rule"] == int(ns.TaskPriorityRuleMode.TSLACK) and kstar is not None
              and (kstar in ow0.near_tie or kstar in ow1.near_tie)
              and confirmed_by_counterfactual("tslack", spec, s2, L, case)):
            # at the first step where the two results part, two waiting tasks had slacks that differ by float noise only
            mech += ":TSLACK-near-tie-decided-by-float-rounding"
        elif owner.startswith("WP:") and path.split("/")[2] == "p":
            mech += ":workplace-content-log-not-edited"
        elif beyond and (owner in ("time",) or "len" in path):
            mech += ":absence-step-beyond-end"
        else:
            has_auto = any(t["auto"] for t in spec["tasks"])
            mech += ":auto-task" if has_auto else ":other"
        res.violate("C10", mech, "absence list %s: result after remove_absence_time_list differs from the absence-free run at %s (%r vs %r)" % (
            L, path, diff[1], diff[2]), absence=L, path=path, facts=facts)
    res["nontrivial"] = res["counters"].get("C10.absence_steps_with_working_task", 0) > 0
    return res
