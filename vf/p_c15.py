"""C15: a run paused at any step k and resumed gives exactly the uninterrupted result
(in memory and through a JSON file)."""
import inspect
import json
import os

from . import gen as G
from . import build as B
from . import instr as I
from .history import Hist, scratch_file
from .runner import rng_for, Result, ns, exc_info
from .p_c09 import strip_pert

TS = ns.BaseTaskState


def norm(v):
    import enum
    if isinstance(v, enum.Enum):
        # an enum member and a plain number of the same value are NOT the same restored value
        return "<%s.%s>" % (type(v).__name__, v.name)
    if isinstance(v, (list, tuple)):
        return [norm(x) for x in v]
    if isinstance(v, dict):
        return {str(k): norm(x) for k, x in v.items()}
    if hasattr(v, "ID"):
        return "<%s>" % v.ID
    if hasattr(v, "total_seconds"):
        return v.total_seconds()
    if hasattr(v, "isoformat"):
        return v.isoformat()
    if isinstance(v, bool) or v is None or isinstance(v, str):
        return v
    if isinstance(v, (int, float)):
        return float(v)
    return repr(v)


SKIP_PARAMS = {"parent_workflow", "parent_product",   # back-pointers, re-established by initialize()
               "product", "organization", "workflow"}   # containers: their contents are compared object by object


def objects_of(p):
    out = [("project", p)]
    for t in p.workflow.task_list:
        out.append(("T:" + t.ID, t))
    for c in p.product.component_list:
        out.append(("C:" + c.ID, c))
    for tm in p.organization.team_list:
        out.append(("TM:" + tm.ID, tm))
        for w in tm.worker_list:
            out.append(("W:" + w.ID, w))
    for wp in p.organization.workplace_list:
        out.append(("WP:" + wp.ID, wp))
        for f in wp.facility_list:
            out.append(("F:" + f.ID, f))
    return out


def saved_fields(data):
    """{object label: set of keys of its JSON node} for a file written by write_simple_json."""
    out = {}
    for node in data.get("pDESy", []):
        typ = node.get("type")
        if typ == "BaseProject" or ("init_datetime" in node):
            out["project"] = set(node)
        for c in node.get("component_list", []) or []:
            out["C:" + c["ID"]] = set(c)
        for t in node.get("task_list", []) or []:
            out["T:" + t["ID"]] = set(t)
        for tm in node.get("team_list", []) or []:
            out["TM:" + tm["ID"]] = set(tm)
            for w in tm.get("worker_list", []):
                out["W:" + w["ID"]] = set(w)
        for wp in node.get("workplace_list", []) or []:
            out["WP:" + wp["ID"]] = set(wp)
            for f in wp.get("facility_list", []):
                out["F:" + f["ID"]] = set(f)
    return out


def param_diff(orig, loaded, saved=None):
    """Constructor parameters (by runtime reflection) whose value differs between the original
    project and the project loaded from its JSON file: {('BaseTask','worker_priority_rule'), ...}.
    With `saved` (from saved_fields) returns (unsaved, saved_but_different): a parameter that IS a
    key of the object's JSON node but comes back different is a save/load defect, not a model that
    'uses unsaved settings'."""
    diffs = set()
    wrong = set()
    a, b = dict(objects_of(orig)), dict(objects_of(loaded))
    for key, oa in a.items():
        ob = b.get(key)
        if ob is None:
            diffs.add((type(oa).__name__, "<missing object>"))
            continue
        try:
            params = list(inspect.signature(type(oa).__init__).parameters)[1:]
        except (TypeError, ValueError):
            continue
        for prm in params:
            if prm in SKIP_PARAMS:
                continue
            if not hasattr(oa, prm) and not hasattr(ob, prm):
                continue
            va, vb = getattr(oa, prm, "<absent>"), getattr(ob, prm, "<absent>")
            if callable(va) or callable(vb):
                continue
            if norm(va) != norm(vb):
                if saved is not None and prm in saved.get(key, ()):
                    wrong.add((type(oa).__name__, prm))
                else:
                    diffs.add((type(oa).__name__, prm))
    if saved is None:
        return diffs
    return diffs, wrong


def make_case(prop, seed, i, tier):
    rng = rng_for(prop, seed, i)
    r = rng.random()
    if r > 0.92:
        # beyond the usual sizes: long runs with late / long absence blocks, big teams, many components ...
        spec = G.gen_scale(rng, rng.choice(["long", "long", "long", "many_resources", "many_components", "ff_chain", "one_component"]))
    elif r < 0.15:
        from .p_forward import fixtures
        name = rng.choice(sorted(fixtures()))
        spec = G.perturb_fixture(rng, fixtures()[name])
        spec["sim"]["max_time"] = 60
    else:
        spec = G.gen_random(rng, G.profile(facility_rich=rng.random() < 0.35, max_time=60, ensure_worker=0.9, boundary=0.3))
        if rng.random() < 0.1:
            G.add_idle_parts(rng, spec)
    if rng.random() < 0.5:
        # JSON variant needs models that use only saved settings: default rules, no main workplace,
        # no conveyor inputs (decided at run time anyway; this only raises the share that qualifies)
        for t in spec["tasks"]:
            t["wkr"], t["fpr"], t["wpr"] = -1, 0, 0
        for tm in spec["teams"]:
            for w in tm["workers"]:
                w["main_wp"] = None
        for wp in spec["wps"]:
            wp["inputs"] = []
    return dict(prop=prop, i=i, spec=spec, tier=tier, kseed=rng.randrange(10 ** 9))


def run_case(case):
    import random
    import warnings
    res = Result(case)
    spec = case["spec"]
    rng = random.Random(case["kseed"])
    I.install()
    order = I.default_order(spec)
    I.set_order(order)
    share = bool(case.get("i", 0) % 2)    # every second model refers to IDs by the very same str objects (main_workplace_id=wp.ID)
    base = B.build(spec, share_ids=share)
    try:
        B.run(base.project, spec)
    except Exception as e:
        res["aborted"] = exc_info(e)
        return res
    ref = strip_pert(B.dump(base.project))
    T = base.project.time
    if case["tier"] == "thorough" and T <= 120:
        ks = list(range(0, T + 1))
    elif case["tier"] == "thorough":
        # long runs of the large models: the boundaries, every step of the first 40 and 60 random later ones
        ks = sorted(set(list(range(0, 41)) + [T - 1, T] + [rng.randint(41, T) for _ in range(60)]))
    else:
        ks = sorted(set([0, 1, max(0, T - 1), T] + [rng.randint(0, max(0, T)) for _ in range(3)]))
    if case["tier"] == "thorough":
        # work bound in logical units (every pause point re-runs the whole model two or three times): a long or large
        # model must not run into the per-case wall-clock watchdog, which would make the tier inconclusive (DESIGN 5.3 #15)
        cap = max(16, 150000 // (max(1, T) * max(4, len(spec["tasks"]))))
        if len(ks) > cap:
            keep = set(ks[:cap // 2]) | {T - 1, T}
            rest = [k_ for k_ in ks if k_ not in keep]
            ks = sorted(keep | set(rng.sample(rest, max(0, cap - len(keep)))))
            res.count("C15.pause_points_capped_cases")
    res["source"] = "pause-resume"
    inside = False
    for k in ks:
        # ---- in memory
        I.set_order(order)
        m = B.build(spec, share_ids=share)
        h = Hist(spec, order=order, model=m)
        e = h.do(["pause", k])
        if e is None:
            paused_working = any(t.state == TS.WORKING for t in h.p.workflow.task_list)
            if 0 < k < T and paused_working:
                inside = True
                res.count("C15.pauses_inside_run_with_working_task")
            e = h.do(["resume"])
        res.count("C15.memory_resumes")
        if e is not None:
            res.violate("C15", "C15/exception-during-pause-resume:%s:%s" % (e["type"], e["where"]),
                        "pause at %d / resume raised %s: %s" % (k, e["type"], e["msg"]))
            continue
        d = strip_pert(B.dump(h.p))
        if d != ref:
            diff = B.first_diff(ref, d)
            res.violate("C15", "C15/memory-resume-differs", "pause at k=%d of %d and resume in memory: differs at %s (%r vs %r)" % (k, T, diff[0], diff[1], diff[2]), k=k)
        # ---- in memory, on a duplicate made with the copy protocol (deepcopy / pickle round trip), original kept alive
        if (k + case.get("i", 0)) % 2 == 0:
            I.set_order(order)
            m = B.build(spec, share_ids=share)
            h = Hist(spec, order=order, model=m)
            e = h.do(["pause", k])
            how = "deepcopy" if (k // 2) % 2 == 0 else "pickle"
            if e is None:
                e = h.do([how])
                if e is None:
                    e = h.do(["resume"])
                res.count("C15.copy_resumes." + how)
                if e is not None:
                    res.violate("C15", "C15/exception-during-copy-resume:%s:%s:%s" % (how, e["type"], e["where"]),
                                "pause at %d, %s, resume raised %s: %s" % (k, how, e["type"], e["msg"]))
                else:
                    d = strip_pert(B.dump(h.p))
                    if d != ref:
                        diff = B.first_diff(ref, d)
                        res.violate("C15", "C15/copy-resume-differs:" + how, "pause at k=%d of %d, %s, resume of the copy: differs at %s (%r vs %r)" % (k, T, how, diff[0], diff[1], diff[2]), k=k)
        # ---- through a JSON file
        I.set_order(order)
        m = B.build(spec, share_ids=share)
        h = Hist(spec, order=order, model=m)
        e = h.do(["pause", k])
        if e is not None:
            continue
        orig_p = h.p
        path = scratch_file("c15")
        q = None
        try:
            try:
                with warnings.catch_warnings():
                    warnings.simplefilter("ignore")
                    orig_p.write_simple_json(path)
                    data = json.load(open(path))
                    q = ns.BaseProject()
                    q.read_simple_json(path)
            except Exception as ex:
                res.count("C15.json_save_load_failed")
                q = None
        finally:
            if os.path.exists(path):
                os.remove(path)
        if q is None:
            continue
        h.p = q
        pd, wrong = param_diff(orig_p, q, saved_fields(data))
        for cls, prm in sorted(wrong):
            res.count("C15.saved_but_restored_differently.%s.%s" % (cls, prm))
        if pd:
            res.count("C15.json_skipped_unsaved_settings")
            for cls, prm in sorted(pd):
                res.count("C15.unsaved.%s.%s" % (cls, prm))
            continue
        e = h.do(["resume"])
        res.count("C15.json_resumes")
        if e is not None:
            res.violate("C15", "C15/exception-during-json-resume:%s:%s" % (e["type"], e["where"]),
                        "pause at %d, save, load, resume raised %s: %s" % (k, e["type"], e["msg"]))
            continue
        d = strip_pert(B.dump(h.p))
        if d != ref:
            diff = B.first_diff(ref, d)
            res.violate("C15", "C15/json-resume-differs", "pause at k=%d of %d, save/load, resume: differs at %s (%r vs %r)" % (k, T, diff[0], diff[1], diff[2]), k=k)
    res["nontrivial"] = inside
    return res
